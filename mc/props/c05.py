"""C05 — every violated keyword is reported, independently of its siblings.

(a) decomposition: the errors of S attributed to keyword k equal (as a multiset
    of full error identities) the errors attributed to k when k stands alone
    with the siblings it is defined to consult;
(b) counting: the multiset of (instance path, schema path) equals the
    reference evaluator's "one error per violation" expectation.
"""
import collections
import json

from mc.props import _e1
from mc.ref import spec

ID = "C05"
LEVEL = "exploration"

CONSULT = {
    "additionalProperties": ["properties", "patternProperties"],
    "additionalItems": ["items"],
    "if": ["then", "else"],
}


def consult(d, k):
    c = list(CONSULT.get(k, []))
    if d <= 4 and k in ("minimum", "maximum"):
        c.append("exclusive" + k.capitalize())
    return c


def attr(e):
    h = e.schema_path[0] if e.schema_path else None
    return "if" if h in ("then", "else") else h


# ---- siblings whose subschemas are references (same document and another document) ----
OTHER = "http://h.invalid/c05/other.json"
REF_STORE = {OTHER: {"d": {"type": "integer"}, "e": {"type": "string", "minLength": 2},
                     "definitions": {"y": {"type": "boolean"}, "z": {"enum": [[]]}}}}
REF_DEFS = {"y": {"type": "string"}, "z": {"type": "object", "required": ["q"]},
            "o": {"$ref": OTHER + "#/d"}}
REF_INSTANCES = [1, "s", "long", True, None, [1, "s"], ["s"], [], {"a": 1}, {"a": "s", "b": 1}, {"a": True, "q": 0}, {}]


def ref_slots(d):
    loc_y, loc_z, oth_d, oth_e = ({"$ref": "#/definitions/y"}, {"$ref": "#/definitions/z"},
                                  {"$ref": OTHER + "#/d"}, {"$ref": OTHER + "#/e"})
    via = {"$ref": "#/definitions/o"}
    slots = [
        ("properties", {"a": loc_y, "b": oth_d}), ("properties", {"a": oth_e, "b": loc_z}),
        ("items", loc_y), ("items", oth_d), ("items", [oth_d, loc_y]),
        ("additionalProperties", loc_y), ("additionalProperties", oth_d),
        ("patternProperties", {"^a": loc_y, "^b": oth_e}),
        ("dependencies", {"a": loc_z}), ("dependencies", {"a": oth_d, "b": loc_y}),
    ]
    if d >= 4:
        slots += [("not", oth_d), ("not", oth_e), ("not", loc_y), ("not", via),
                  ("allOf", [loc_y, oth_d]), ("allOf", [oth_e, loc_z]),
                  ("anyOf", [oth_d, loc_y]), ("anyOf", [oth_e, oth_d]),
                  ("oneOf", [oth_d, loc_y]), ("oneOf", [oth_d, oth_e, loc_z])]
    else:
        slots += [("disallow", [oth_d]), ("disallow", [loc_y, oth_e]), ("disallow", [via]),
                  ("extends", [loc_y, oth_d]), ("extends", oth_e),
                  ("type", [oth_d, loc_y]), ("type", [oth_e, "null"])]
    if d >= 6:
        slots += [("contains", oth_d), ("contains", loc_y), ("propertyNames", oth_e), ("propertyNames", loc_y)]
    if d == 7:
        slots += [("if", oth_d), ("if", loc_y), ("then", loc_y), ("else", oth_e), ("then", oth_d), ("else", loc_z)]
    return slots


def ref_schemas(d):
    slots = ref_slots(d)
    out = []
    for i, (k1, v1) in enumerate(slots):
        for j, (k2, v2) in enumerate(slots):
            if k1 == k2:
                continue
            if {k1, k2} <= {"then", "else"}:
                continue
            S = {k1: v1, k2: v2, "definitions": REF_DEFS}
            if d == 7 and ("then" in S or "else" in S) and "if" not in S:
                S = dict([("if", {"$ref": OTHER + "#/d"})] + list(S.items()))
            out.append(S)
    # same-document references only (scope-neutral): every ordered pair of such slots
    local = [(k, v) for k, v in slots if OTHER not in json.dumps(v) and "#/definitions/o" not in json.dumps(v)]
    LOCAL_DEFS = {"y": {"type": "string"}, "z": {"type": "object", "required": ["q"]}}
    for k1, v1 in local:
        for k2, v2 in local:
            if k1 != k2 and not ({k1, k2} <= {"then", "else"}):
                S = {k1: v1, k2: v2, "definitions": LOCAL_DEFS}
                if d == 7 and ("then" in S or "else" in S) and "if" not in S:
                    S = dict([("if", {"$ref": "#/definitions/y"})] + list(S.items()))
                out.append(S)
    # three siblings: a probe that abandons its iteration between two keywords that resolve local references
    probes = [s for s in slots if s[0] in ("not", "disallow", "contains", "if", "oneOf", "anyOf")]
    users = [s for s in slots if s[0] in ("properties", "items", "additionalProperties", "allOf", "extends")]
    for (kp, vp) in probes:
        for (ka, va) in users:
            for (kb, vb) in users:
                if len({kp, ka, kb}) == 3:
                    out.append({ka: va, kp: vp, kb: vb, "definitions": REF_DEFS})
    return out


def ref_validator(d, S):
    from jsonschema import RefResolver
    cls = _e1.CLS[d]
    r = RefResolver.from_schema(S, id_of=cls.ID_OF, store=json.loads(json.dumps(REF_STORE)))
    return cls(S, resolver=r)


def ref_check(d, S, x):
    """(n_errors, problem or None): decomposition half for schemas whose subschemas are references."""
    try:
        errors = list(ref_validator(d, S).iter_errors(x))
    except Exception as e:
        return 0, ("crash", type(e).__name__, None)
    whole = {}
    for e in errors:
        whole.setdefault(attr(e), []).append(_e1.ident(e))
    extra = set(whole) - set(S)
    if extra:
        return len(errors), ("unattributed", sorted(map(str, extra)), None)
    for k in S:
        if k == "definitions":
            continue
        names = [k] + consult(d, k) + ["definitions"]
        Sk = {kk: vv for kk, vv in S.items() if kk in names}
        try:
            part = sorted((_e1.ident(e) for e in ref_validator(d, Sk).iter_errors(x) if attr(e) == k), key=repr)
        except Exception as e:
            return len(errors), ("crash-alone", type(e).__name__, None)
        mine = sorted(whole.get(k, []), key=repr)
        if part != mine:
            return len(errors), ("decomp", k, {"alone": part, "in_schema": mine})
    return len(errors), None


def nested_iteration_problem(d, S, x):
    """While one error iterator of a validator is suspended after its first error, a second, complete iteration
    over the SAME validator and the SAME instance object (what a caller does who inspects one error and asks for
    the full list, or a keyword that validates re-entrantly) reports everything, and so does the first one."""
    if OTHER in json.dumps(S):
        # a suspended iterator inside a reference into ANOTHER document legitimately holds that document's scope on
        # the shared resolver (C07 words exactly this exception); only same-document references are scope-neutral
        return None
    v = ref_validator(d, S)
    try:
        full = sorted((_e1.ident(e) for e in ref_validator(d, S).iter_errors(x)), key=repr)
    except Exception:
        return None
    if not full:
        return None
    try:
        outer = v.iter_errors(x)
        first = next(outer, None)
        inner = sorted((_e1.ident(e) for e in v.iter_errors(x)), key=repr)
        probe = v.is_valid(x)
        rest = list(outer)
        got_outer = sorted((_e1.ident(e) for e in ([first] if first is not None else []) + rest), key=repr)
    except Exception as e:
        return ("nested-iteration-raised", type(e).__name__, None)
    if inner != full:
        return ("nested-iteration", "inner", {"inner": inner, "alone": full})
    if got_outer != full:
        return ("nested-iteration", "outer", {"outer": got_outer, "alone": full})
    if probe is not False:
        return ("nested-iteration", "is_valid-inside", {"is_valid": probe})
    return None


def run_refs(unit, ctx):
    d, _, shard, n = unit
    lst = ref_schemas(d)
    ev = nt = nsch = 0
    viol, samples, outcomes = [], [], {}
    for i in range(shard, len(lst), n):
        S = lst[i]
        if not _e1.accepted(d, S):
            continue
        nsch += 1
        for x in REF_INSTANCES:
            ev += 1
            cnt, prob = ref_check(d, S, x)
            if prob is None and cnt:
                prob = nested_iteration_problem(d, S, x)
            if cnt:
                nt += 1
            key = "ref-errors=%d" % min(cnt, 6)
            outcomes[key] = outcomes.get(key, 0) + 1
            if prob is not None:
                sig = "C05|refs|%s|%s|on-%s" % (prob[0] if prob[0] != "crash" else "crash-" + prob[1],
                                                "+".join(k for k in S if k != "definitions"), spec.jtype(x))
                viol.append({"signature": sig, "size": len(str(S)) + len(str(x)),
                             "case": {"draft": d, "schema": S, "instance": x, "refs": True},
                             "detail": {"kind": prob[0], "keyword": prob[1], "diff": prob[2]}})
        if not samples:
            samples.append({"draft": d, "schema": S, "instance": REF_INSTANCES[i % len(REF_INSTANCES)], "store": [OTHER]})
    return {"evaluations": ev, "nontrivial": nt, "violations": viol, "samples": samples, "outcomes": outcomes,
            "counters": {"ref_schemas_accepted": nsch}}


def plan(ctx):
    units, sizes = _e1.make_units(ctx, kinds=("singles", "pairs", "groups", "nested"))
    for d in _e1.DRAFTS:
        sizes["ref_sibling_schemas_d%d" % d] = len(ref_schemas(d))
        units += [(d, "refs", i, 6) for i in range(6)]
        units += [(d, "shared", kind, i, 3) for kind in ("singles", "groups") for i in range(3)]
        sizes["defaulting_schemas_d%d" % d] = len(defaulting_schemas(d, ctx.tier))
        units += [(d, "defaulting", i, 6) for i in range(6)]
        units += [(d, "edited", i, 4) for i in range(4)]
        units.append((d, "longstr", 0, 1))
    return {
        "units": units,
        "rule": ("LONG STRINGS: ordered pairs of string keywords on strings of 17 .. 70000 characters.  EDITED IN PLACE (also a "
                 "pattern / name / dependency added to the nested table in place): all ordered pairs over two values per keyword: a validator is used, then the second "
                 "keyword is added to the root schema object in place, then the first is deleted; after each edit the "
                 "same validator reports what a validator for the current schema reports.  DEFAULTING INSTANCES: sibling groups and ordered pairs with an object keyword x every instance "
                 "containing an object, given as collections.defaultdict (answers for keys it is asked about): same "
                 "(keyword, path, schema path) multiset as for the plain dict, and the instance does not grow.  "
                 "SHARED VALIDATOR: every single and sibling group x the pair universe through ONE long-lived validator "
                 "object that gets a new copy of the schema per call, vs. a validator built for the schema.  REFERENCES: every ordered pair of keyword slots (and probe-between-two-users triples) whose "
                 "subschemas are $ref's into the same document and into a store document (same pointers, other "
                 "meaning) x 12 instances, decomposition half, and a complete iteration nested inside a suspended one on the same validator and instance object.  G(draft) x U as in C01 (singles, all ordered pairs, sibling groups, nested); one "
                 "list(iter_errors) per case feeds (a) the per-keyword decomposition against the keyword alone "
                 "with its consulted siblings and (b) the location-multiset comparison with the reference "
                 "evaluator; cases are distinct by construction; non-trivial = the instance has at least one "
                 "error (something to hide, duplicate or alter)"),
        "bounds": dict(sizes, universe=len(_e1.get_universe(ctx.tier)),
                       universe_for_pairs=len(_e1.get_universe(ctx.tier, "pairs-small")), tier=ctx.tier),
        "assumptions": ["reference evaluator for the counting half; the decomposition half compares the "
                        "implementation with itself and needs no oracle"],
    }


_solo = {}
_solo_v = {}


def solo_errors(d, Sk, skey, k, x, xkey):
    """Errors attributed to k when validating x against the restricted schema Sk (cached)."""
    key = (d, skey, k, xkey)
    r = _solo.get(key)
    if r is None:
        if len(_solo) > 400000:
            _solo.clear()
        vk = _solo_v.get((d, skey))
        if vk is None:
            if len(_solo_v) > 20000:
                _solo_v.clear()
            vk = _solo_v[(d, skey)] = _e1.CLS[d](Sk)
        r = sorted((_e1.ident(e) for e in vk.iter_errors(x) if attr(e) == k), key=repr)
        _solo[key] = r
    return r


def restricted(d, S, k):
    names = [k] + consult(d, k)
    Sk = {kk: vv for kk, vv in S.items() if kk in names}
    return (Sk, json.dumps(Sk)) if _e1.accepted(d, Sk) else None


def check_case(d, S, x, xkey=None, subs=None, v=None):
    """Returns (n_errors, problem or None)."""
    if xkey is None:
        xkey = json.dumps(x)
    if v is None:
        v = _e1.CLS[d](S)
    try:
        errors = list(v.iter_errors(x))
    except Exception as e:
        return 0, ("crash", type(e).__name__, None)
    whole = {}
    for e in errors:
        whole.setdefault(attr(e), []).append(_e1.ident(e))
    if isinstance(S, dict):
        extra = set(whole) - set(S)
        if extra:
            return len(errors), ("unattributed", sorted(map(str, extra)), None)
        for k in S:
            r = subs[k] if subs is not None else restricted(d, S, k)
            if r is None:
                continue
            part = solo_errors(d, r[0], r[1], k, x, xkey)
            mine = whole.get(k)
            if not part and not mine:
                continue
            if part != sorted(mine or [], key=repr):
                return len(errors), ("decomp", k, {"alone": part, "in_schema": sorted(whole.get(k, []), key=repr)})
    try:
        exp = _e1.sort_locs(spec.errs(d, S, x))
    except spec.Unsupported:
        return len(errors), None
    got = _e1.sort_locs(_e1.loc(e) for e in errors)
    if got != exp:
        return len(errors), ("count", None, {"expected_locations": exp, "observed_locations": got})
    return len(errors), None


def fails_like(d, S, x, kind):
    if not _e1.accepted(d, S):
        return False
    n, prob = check_case(d, S, x)
    return prob is not None and prob[0] == kind


def run_shared(unit, ctx):
    """ONE long-lived validator object per draft is handed a NEW copy of each schema for every call
    (iter_errors(instance, schema), the way `descend` uses a validator): the errors must be those of a
    validator built for that schema — whatever a validator remembers about schema objects that no longer exist
    would show."""
    d, _, kind, shard, n = unit
    U = list(_e1.get_universe(ctx.tier, "pairs-small"))
    W = _e1.CLS[d]({})
    ev = nt = nsch = 0
    viol, outcomes = [], {}
    lst = _e1.get_list(kind, d, ctx.tier)
    for i in range(shard, len(lst), n):
        S = lst[i]
        if kind != "singles" and not _e1.accepted(d, S):
            continue
        nsch += 1
        own = _e1.CLS[d](S)
        for x in U:
            ev += 1
            try:
                want = sorted((_e1.ident(e) for e in own.iter_errors(x)), key=repr)
            except Exception:
                continue
            try:
                got = sorted((_e1.ident(e) for e in W.iter_errors(x, json.loads(json.dumps(S)))), key=repr)
            except Exception as e:
                got = "crash " + type(e).__name__
            if want:
                nt += 1
            key = "shared-agrees" if got == want else "SHARED-DISAGREES"
            outcomes[key] = outcomes.get(key, 0) + 1
            if got != want:
                viol.append({"signature": "C05|shared-validator|%s|on-%s" % (_e1.kwsig(S), spec.jtype(x)),
                             "size": len(str(S)) + len(str(x)),
                             "case": {"draft": d, "schema": S, "instance": x, "shared": True, "kind": kind, "index": i},
                             "detail": {"own_validator": want, "shared_validator": got}})
    return {"evaluations": ev, "nontrivial": nt, "violations": viol, "samples": [], "outcomes": outcomes,
            "counters": {"shared_validator_schemas": nsch}}


OBJECT_KW = {"properties", "patternProperties", "additionalProperties", "required", "dependencies", "minProperties",
             "maxProperties", "propertyNames"}


def as_defaulting(x):
    """The same members, in a mapping that fills in an answer for every key it is *asked* about (defaultdict):
    a keyword that asks about an absent member must not thereby show it to the other keywords."""
    if isinstance(x, dict):
        return collections.defaultdict(list, ((k, as_defaulting(v)) for k, v in x.items()))
    if isinstance(x, list):
        return [as_defaulting(v) for v in x]
    return x


def plain_again(x):
    if isinstance(x, dict):
        return {k: plain_again(v) for k, v in x.items()}
    if isinstance(x, list):
        return [plain_again(v) for v in x]
    return x


def defaulting_schemas(d, tier):
    out = [S for S in _e1.get_list("groups", d, tier) if isinstance(S, dict) and OBJECT_KW & set(S)]
    sg = [(k, v) for k, v in _e1.get_singles(d, tier) if k in OBJECT_KW or k in ("items", "not", "allOf", "anyOf", "extends")]
    from mc.enum import schemas
    for S in schemas.ordered_pairs(sg):
        if OBJECT_KW & set(S):
            out.append(S)
    return out


def run_defaulting(unit, ctx):
    d, _, shard, n = unit
    U = [x for x in _e1.get_universe(ctx.tier, "pairs-small") if isinstance(x, (dict, list)) and "{" in json.dumps(x)]
    lst = defaulting_schemas(d, ctx.tier)
    ev = nt = nsch = 0
    viol, outcomes = [], {}
    for i in range(shard, len(lst), n):
        S = lst[i]
        if not _e1.accepted(d, S):
            continue
        nsch += 1
        v = _e1.CLS[d](S)
        for x in U:
            ev += 1
            try:
                want = sorted(((e.validator, tuple(e.path), tuple(e.schema_path)) for e in v.iter_errors(x)), key=repr)
            except Exception:
                continue
            xd = as_defaulting(x)
            try:
                got = sorted(((e.validator, tuple(e.path), tuple(e.schema_path)) for e in v.iter_errors(xd)), key=repr)
            except Exception as e:
                got = "crash " + type(e).__name__
            if want:
                nt += 1
            grown = plain_again(xd) != x
            key = "defaulting-agrees" if (got == want and not grown) else "DEFAULTING-DISAGREES"
            outcomes[key] = outcomes.get(key, 0) + 1
            if got != want or grown:
                small = _e1.shrink_keys(S, lambda c: _e1.accepted(d, c) and defaulting_differs(d, c, x))
                viol.append({"signature": "C05|defaulting-instance|%s|%s" % ("instance-grew" if grown else "errors-differ",
                                                                            _e1.kwsig(small)),
                             "size": len(str(small)) + len(str(x)),
                             "case": {"draft": d, "schema": small, "instance": x, "defaulting": True},
                             "detail": {"plain_dict": want, "defaulting_dict": got, "instance_after": plain_again(xd),
                                        "unshrunk_schema": S}})
    return {"evaluations": ev, "nontrivial": nt, "violations": viol, "samples": [], "outcomes": outcomes,
            "counters": {"defaulting_schemas": nsch}}


def defaulting_differs(d, S, x):
    v = _e1.CLS[d](S)
    want = sorted(((e.validator, tuple(e.path), tuple(e.schema_path)) for e in v.iter_errors(x)), key=repr)
    xd = as_defaulting(x)
    try:
        got = sorted(((e.validator, tuple(e.path), tuple(e.schema_path)) for e in v.iter_errors(xd)), key=repr)
    except Exception:
        return True
    return got != want or plain_again(xd) != x


def run_edited(unit, ctx):
    """The caller owns the schema object: after a validator has been used, a keyword is added to / replaced in /
    deleted from the ROOT schema object in place; the same validator must then report what a validator built for
    the schema as it now stands reports (every keyword present is applied, nothing that is gone is)."""
    d, _, shard, n = unit
    U = [x for i, x in enumerate(_e1.get_universe(ctx.tier, "pairs-small")) if i % 3 == 0]
    sg = _e1.get_singles(d, ctx.tier)
    per = {}
    for k, v in sg:
        per.setdefault(k, [])
        if len(per[k]) < 2:
            per[k].append(v)
    red = [(k, v) for k, vs in per.items() for v in vs]
    pairs = [(a, b) for a in red for b in red if a[0] != b[0]]
    # the siblings additionalProperties consults, with a closed object, in both orders
    for tbl, val in (("patternProperties", {"a": {}}), ("properties", {"a": {}}), ("patternProperties", {"^a": {"type": "integer"}})):
        for ap in (False, {"type": "integer"}):
            pairs += [((tbl, val), ("additionalProperties", ap)), (("additionalProperties", ap), (tbl, val))]
    U = U + [{"b": 1}, {"zz": "s"}, {"a": 1, "b": "s", "zz": None}, {"ab": 1}]
    ev = nt = 0
    viol, outcomes = [], {}
    for i in range(shard, len(pairs), n):
        (k1, v1), (k2, v2) = pairs[i]
        if not _e1.accepted(d, {k1: v1, k2: v2}):
            continue
        for x in U:
            S = {k1: json.loads(json.dumps(v1))}
            v = _e1.CLS[d](S)
            steps = []

            def snap_now(what):
                cur = json.loads(json.dumps(S))
                got = sorted((_e1.ident(e) for e in v.iter_errors(x)), key=repr)
                steps.append((what, cur, got))
            try:
                list(v.iter_errors(x))
                S[k2] = json.loads(json.dumps(v2))                      # keyword added
                snap_now("added")
                # a nested table edited in place: a pattern / name / dependency added to the object the keyword holds
                for tbl, extra in (("patternProperties", {"^zz": {"type": "null"}, "b": {"type": "null"}}),
                                   ("properties", {"b": {"type": "null"}, "ab": {"type": "null"}}),
                                   ("dependencies", {"b": ["zz"]})):
                    if isinstance(S.get(tbl), dict):
                        before = json.loads(json.dumps(S[tbl]))
                        S[tbl].update(json.loads(json.dumps(extra)))
                        if _e1.accepted(d, json.loads(json.dumps(S))):
                            snap_now("nested-" + tbl)
                        else:
                            S[tbl].clear()
                            S[tbl].update(before)
                del S[k1]                                               # keyword deleted
                snap_now("deleted")
            except Exception:
                continue
            for what, snap, got in steps:
                ev += 1
                want = sorted((_e1.ident(e) for e in _e1.CLS[d](snap).iter_errors(x)), key=repr)
                if want:
                    nt += 1
                key = "edited-agrees" if got == want else "EDITED-DISAGREES"
                outcomes[key] = outcomes.get(key, 0) + 1
                if got != want:
                    viol.append({"signature": "C05|root-schema-edited-in-place|keyword-%s" % what, "size": len(str(snap)) + len(str(x)),
                                 "case": {"draft": d, "schema": {k1: v1}, "instance": x, "edited": [k1, k2, v2]},
                                 "detail": {"after": what, "reused_validator": got, "validator_for_current_schema": want}})
                    break
    return {"evaluations": ev, "nontrivial": nt, "violations": viol, "samples": [], "outcomes": outcomes,
            "counters": {"edited_in_place_cases": ev}}


def run_long_strings(unit, ctx):
    """Pairs of string keywords on strings of 17 .. 70000 characters: each keyword reports as it does alone."""
    d = unit[0]
    kws = [("pattern", "^[a-z]+$"), ("pattern", "b$"), ("maxLength", 5), ("maxLength", 4096), ("minLength", 100000),
           ("enum", ["x"]), ("type", "integer"), ("format", "ipv4")]
    if d >= 6:
        kws.append(("const", "x"))
    strings = []
    for n in (17, 255, 4096, 4097, 5000, 70000):
        strings += ["a" * n, "a" * (n - 1) + "B", "B" + "a" * (n - 1), "\U0001F600" * n]
    ev = nt = 0
    viol, outcomes = [], {}
    for (k1, v1) in kws:
        for (k2, v2) in kws:
            if k1 == k2:
                continue
            S = {k1: v1, k2: v2}
            if not _e1.accepted(d, S):
                continue
            for x in strings:
                ev += 1
                n, prob = check_case(d, S, x)
                if n:
                    nt += 1
                outcomes["long-string-errors=%d" % n] = outcomes.get("long-string-errors=%d" % n, 0) + 1
                if prob is not None and prob[0] in ("decomp", "crash", "unattributed"):
                    viol.append({"signature": "C05|long-string|%s|%s" % (prob[0], _e1.kwsig(S)), "size": len(x),
                                 "case": {"draft": d, "schema": S, "long_string": strings.index(x)},
                                 "detail": {"kind": prob[0], "keyword": prob[1], "length": len(x)}})
    return {"evaluations": ev, "nontrivial": nt, "violations": viol, "samples": [], "outcomes": outcomes,
            "counters": {"long_string_cases": ev}}


def run_unit(unit, ctx):
    if unit[1] == "longstr":
        return run_long_strings(unit, ctx)
    if unit[1] == "edited":
        return run_edited(unit, ctx)
    if unit[1] == "refs":
        return run_refs(unit, ctx)
    if unit[1] == "defaulting":
        return run_defaulting(unit, ctx)
    if unit[1] == "shared":
        return run_shared(unit, ctx)
    d = unit[0]
    U = list(_e1.get_universe(ctx.tier, "pairs-small" if unit[1] == "pairs" else unit[1]))
    xkeys = [json.dumps(x) for x in U]
    ev = nt = nschemas = multi = 0
    viol, samples, outcomes = [], [], {}
    for S in _e1.iter_unit(unit, ctx.tier):
        if unit[1] != "singles" and not _e1.accepted(d, S):
            continue
        nschemas += 1
        subs = {k: restricted(d, S, k) for k in S} if isinstance(S, dict) else None
        v = _e1.CLS[d](S)
        skey = json.dumps(S)
        for xi, (x, xkey) in enumerate(zip(U, xkeys)):
            ev += 1
            n, prob = check_case(d, S, x, xkey, subs, v)
            if json.dumps(x) != xkey:
                # validation changed the caller's instance; report, then restore it for the cases that follow
                viol.append({"signature": "C05|instance-modified|%s" % _e1.kwsig(S), "size": len(skey) + len(xkey),
                             "case": {"draft": d, "schema": json.loads(skey), "instance": json.loads(xkey),
                                      "purity": True},
                             "detail": {"instance_after": x}})
                U[xi] = x = json.loads(xkey)
            if json.dumps(S) != skey:
                viol.append({"signature": "C05|schema-modified|%s" % _e1.kwsig(json.loads(skey)), "size": len(skey),
                             "case": {"draft": d, "schema": json.loads(skey), "instance": json.loads(xkey),
                                      "purity": True},
                             "detail": {"schema_after": S}})
                break
            if n:
                nt += 1
            if n > 1:
                multi += 1
            key = "errors=%d" % min(n, 6)
            outcomes[key] = outcomes.get(key, 0) + 1
            if prob is not None:
                kind = prob[0]
                small = _e1.shrink_keys(S, lambda c: fails_like(d, c, x, kind))
                sig = "C05|%s|%s|on-%s" % (kind if kind != "crash" else "crash-" + prob[1],
                                           _e1.kwsig(small), spec.jtype(x))
                viol.append({"signature": sig, "size": len(str(small)) + len(str(x)),
                             "case": {"draft": d, "schema": small, "instance": x},
                             "detail": {"kind": kind, "keyword": prob[1], "diff": prob[2], "unshrunk_schema": S}})
            if n >= 2 and len(samples) < 2 and nschemas % 89 == 3:
                samples.append({"draft": d, "schema": S, "instance": x, "errors": n})
    return {"evaluations": ev, "nontrivial": nt, "violations": viol, "samples": samples, "outcomes": outcomes,
            "counters": {"schemas_accepted": nschemas, "cases_with_two_or_more_errors": multi}}


def replay(case, ctx):
    d, S, x = case["draft"], case["schema"], case.get("instance")
    if case.get("long_string") is not None and "long_string" in case:
        strings = []
        for n in (17, 255, 4096, 4097, 5000, 70000):
            strings += ["a" * n, "a" * (n - 1) + "B", "B" + "a" * (n - 1), "\U0001F600" * n]
        nn, prob = check_case(d, S, strings[case["long_string"]])
        return {"reproduced": prob is not None, "problem": prob and prob[0]}
    if case.get("edited"):
        k1, k2, v2 = case["edited"]
        S2 = json.loads(json.dumps(S))
        v = _e1.CLS[d](S2)
        list(v.iter_errors(x))
        bad = []

        def cmp(what):
            g = sorted((_e1.ident(e) for e in v.iter_errors(x)), key=repr)
            w = sorted((_e1.ident(e) for e in _e1.CLS[d](json.loads(json.dumps(S2))).iter_errors(x)), key=repr)
            if g != w:
                bad.append(what)
        S2[k2] = v2
        cmp("added")
        for tbl, extra in (("patternProperties", {"^zz": {"type": "null"}, "b": {"type": "null"}}),
                           ("properties", {"b": {"type": "null"}, "ab": {"type": "null"}}), ("dependencies", {"b": ["zz"]})):
            if isinstance(S2.get(tbl), dict):
                before = json.loads(json.dumps(S2[tbl]))
                S2[tbl].update(json.loads(json.dumps(extra)))
                if _e1.accepted(d, json.loads(json.dumps(S2))):
                    cmp("nested-" + tbl)
                else:
                    S2[tbl].clear()
                    S2[tbl].update(before)
        del S2[k1]
        cmp("deleted")
        return {"reproduced": bool(bad), "steps": bad}
    if case.get("defaulting"):
        return {"reproduced": defaulting_differs(d, S, x)}
    if case.get("shared"):
        # the failure depends on what the long-lived validator saw before: replay the unit's prefix up to the case
        W = _e1.CLS[d]({})
        U = list(_e1.get_universe("quick", "pairs-small"))
        lst = _e1.get_list(case["kind"], d, "quick")
        bad = None
        for i in range(case["index"] % 3, case["index"] + 1, 3):
            Si = lst[i]
            if case["kind"] != "singles" and not _e1.accepted(d, Si):
                continue
            own = _e1.CLS[d](Si)
            for xx in U:
                try:
                    want = sorted((_e1.ident(e) for e in own.iter_errors(xx)), key=repr)
                    got = sorted((_e1.ident(e) for e in W.iter_errors(xx, json.loads(json.dumps(Si)))), key=repr)
                except Exception as e:
                    got, want = "crash " + type(e).__name__, None
                if got != want and i == case["index"]:
                    bad = (xx, got, want)
        return {"reproduced": bad is not None, "first": bad}
    if case.get("refs"):
        n, prob = ref_check(d, S, x)
        if prob is None:
            prob = nested_iteration_problem(d, S, x)
        return {"reproduced": prob is not None, "errors": n, "problem": prob}
    if case.get("purity"):
        k1, k2 = json.dumps(S), json.dumps(x)
        try:
            list(_e1.CLS[d](S).iter_errors(x))
        except Exception:
            pass
        return {"reproduced": json.dumps(S) != k1 or json.dumps(x) != k2, "schema_after": S, "instance_after": x}
    n, prob = check_case(d, S, x)
    return {"reproduced": prob is not None, "errors": n, "problem": prob}
