"""C05 — every violated keyword is reported, independently of its siblings.

(a) decomposition: the errors of S attributed to keyword k equal (as a multiset
    of full error identities) the errors attributed to k when k stands alone
    with the siblings it is defined to consult;
(b) counting: the multiset of (instance path, schema path) equals the
    reference evaluator's "one error per violation" expectation.
"""
import json

from mc.props import _e1
from mc.ref import spec

ID = "C05"
LEVEL = "exploration"

CONSULT = {
    "additionalProperties": ["properties", "patternProperties"],
    "additionalItems": ["items"],
    "if": ["then", "else"],
}


def consult(d, k):
    c = list(CONSULT.get(k, []))
    if d <= 4 and k in ("minimum", "maximum"):
        c.append("exclusive" + k.capitalize())
    return c


def attr(e):
    h = e.schema_path[0] if e.schema_path else None
    return "if" if h in ("then", "else") else h


def plan(ctx):
    units, sizes = _e1.make_units(ctx, kinds=("singles", "pairs", "groups", "nested"))
    return {
        "units": units,
        "rule": ("G(draft) x U as in C01 (singles, all ordered pairs, sibling groups, nested); one "
                 "list(iter_errors) per case feeds (a) the per-keyword decomposition against the keyword alone "
                 "with its consulted siblings and (b) the location-multiset comparison with the reference "
                 "evaluator; cases are distinct by construction; non-trivial = the instance has at least one "
                 "error (something to hide, duplicate or alter)"),
        "bounds": dict(sizes, universe=len(_e1.get_universe(ctx.tier)),
                       universe_for_pairs=len(_e1.get_universe(ctx.tier, "pairs-small")), tier=ctx.tier),
        "assumptions": ["reference evaluator for the counting half; the decomposition half compares the "
                        "implementation with itself and needs no oracle"],
    }


_solo = {}
_solo_v = {}


def solo_errors(d, Sk, skey, k, x, xkey):
    """Errors attributed to k when validating x against the restricted schema Sk (cached)."""
    key = (d, skey, k, xkey)
    r = _solo.get(key)
    if r is None:
        if len(_solo) > 400000:
            _solo.clear()
        vk = _solo_v.get((d, skey))
        if vk is None:
            if len(_solo_v) > 20000:
                _solo_v.clear()
            vk = _solo_v[(d, skey)] = _e1.CLS[d](Sk)
        r = sorted((_e1.ident(e) for e in vk.iter_errors(x) if attr(e) == k), key=repr)
        _solo[key] = r
    return r


def restricted(d, S, k):
    names = [k] + consult(d, k)
    Sk = {kk: vv for kk, vv in S.items() if kk in names}
    return (Sk, json.dumps(Sk)) if _e1.accepted(d, Sk) else None


def check_case(d, S, x, xkey=None, subs=None, v=None):
    """Returns (n_errors, problem or None)."""
    if xkey is None:
        xkey = json.dumps(x)
    if v is None:
        v = _e1.CLS[d](S)
    try:
        errors = list(v.iter_errors(x))
    except Exception as e:
        return 0, ("crash", type(e).__name__, None)
    whole = {}
    for e in errors:
        whole.setdefault(attr(e), []).append(_e1.ident(e))
    if isinstance(S, dict):
        extra = set(whole) - set(S)
        if extra:
            return len(errors), ("unattributed", sorted(map(str, extra)), None)
        for k in S:
            r = subs[k] if subs is not None else restricted(d, S, k)
            if r is None:
                continue
            part = solo_errors(d, r[0], r[1], k, x, xkey)
            mine = whole.get(k)
            if not part and not mine:
                continue
            if part != sorted(mine or [], key=repr):
                return len(errors), ("decomp", k, {"alone": part, "in_schema": sorted(whole.get(k, []), key=repr)})
    try:
        exp = _e1.sort_locs(spec.errs(d, S, x))
    except spec.Unsupported:
        return len(errors), None
    got = _e1.sort_locs(_e1.loc(e) for e in errors)
    if got != exp:
        return len(errors), ("count", None, {"expected_locations": exp, "observed_locations": got})
    return len(errors), None


def fails_like(d, S, x, kind):
    if not _e1.accepted(d, S):
        return False
    n, prob = check_case(d, S, x)
    return prob is not None and prob[0] == kind


def run_unit(unit, ctx):
    d = unit[0]
    U = list(_e1.get_universe(ctx.tier, "pairs-small" if unit[1] == "pairs" else unit[1]))
    xkeys = [json.dumps(x) for x in U]
    ev = nt = nschemas = multi = 0
    viol, samples, outcomes = [], [], {}
    for S in _e1.iter_unit(unit, ctx.tier):
        if unit[1] != "singles" and not _e1.accepted(d, S):
            continue
        nschemas += 1
        subs = {k: restricted(d, S, k) for k in S} if isinstance(S, dict) else None
        v = _e1.CLS[d](S)
        skey = json.dumps(S)
        for xi, (x, xkey) in enumerate(zip(U, xkeys)):
            ev += 1
            n, prob = check_case(d, S, x, xkey, subs, v)
            if json.dumps(x) != xkey:
                # validation changed the caller's instance; report, then restore it for the cases that follow
                viol.append({"signature": "C05|instance-modified|%s" % _e1.kwsig(S), "size": len(skey) + len(xkey),
                             "case": {"draft": d, "schema": json.loads(skey), "instance": json.loads(xkey),
                                      "purity": True},
                             "detail": {"instance_after": x}})
                U[xi] = x = json.loads(xkey)
            if json.dumps(S) != skey:
                viol.append({"signature": "C05|schema-modified|%s" % _e1.kwsig(json.loads(skey)), "size": len(skey),
                             "case": {"draft": d, "schema": json.loads(skey), "instance": json.loads(xkey),
                                      "purity": True},
                             "detail": {"schema_after": S}})
                break
            if n:
                nt += 1
            if n > 1:
                multi += 1
            key = "errors=%d" % min(n, 6)
            outcomes[key] = outcomes.get(key, 0) + 1
            if prob is not None:
                kind = prob[0]
                small = _e1.shrink_keys(S, lambda c: fails_like(d, c, x, kind))
                sig = "C05|%s|%s|on-%s" % (kind if kind != "crash" else "crash-" + prob[1],
                                           _e1.kwsig(small), spec.jtype(x))
                viol.append({"signature": sig, "size": len(str(small)) + len(str(x)),
                             "case": {"draft": d, "schema": small, "instance": x},
                             "detail": {"kind": kind, "keyword": prob[1], "diff": prob[2], "unshrunk_schema": S}})
            if n >= 2 and len(samples) < 2 and nschemas % 89 == 3:
                samples.append({"draft": d, "schema": S, "instance": x, "errors": n})
    return {"evaluations": ev, "nontrivial": nt, "violations": viol, "samples": samples, "outcomes": outcomes,
            "counters": {"schemas_accepted": nschemas, "cases_with_two_or_more_errors": multi}}


def replay(case, ctx):
    d, S, x = case["draft"], case["schema"], case["instance"]
    if case.get("purity"):
        k1, k2 = json.dumps(S), json.dumps(x)
        try:
            list(_e1.CLS[d](S).iter_errors(x))
        except Exception:
            pass
        return {"reproduced": json.dumps(S) != k1 or json.dumps(x) != k2, "schema_after": S, "instance_after": x}
    n, prob = check_case(d, S, x)
    return {"reproduced": prob is not None, "errors": n, "problem": prob}
