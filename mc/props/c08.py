"""C08 — enum, const and uniqueItems use JSON equality at every nesting depth.

Part P (pairs): V = JSON values of depth <= 2, width <= 2 over 16 atoms chosen
so that every confusion Python's == / hash / float() could introduce is present
(true/1/1.0, false/0/0.0/-0.0, 2**53 / 2**53+1 / float(2**53), "1", "true").
ALL ordered pairs (a, b) of V go through

    {"const": a}            on b        drafts 6, 7
    {"enum": [a]}           on b        drafts 3, 4, 6, 7
    {"enum": [x(a), a]}     on b        drafts 3, 4, 6, 7   (x(a): a distractor, see distractor())
    {"uniqueItems": true}   on [a, b]   drafts 3, 4, 6, 7

and every verdict is compared with mc/ref/equality.py; independently of the
oracle, const <=> enum <=> not-uniqueItems is compared per (pair, draft).

Part A (arrays): ALL arrays of length 3 (thorough: also 4) over a 40-value
sub-universe mixing hashable atoms, sortable containers and unsortable
containers, so duplicates occur adjacent and far apart, in every mixture of
element kinds; uniqueItems in the four drafts against "all canonical keys
distinct".
"""
import collections
import itertools
import json

from jsonschema import (Draft3Validator, Draft4Validator, Draft6Validator,
                        Draft7Validator, exceptions)

from mc.ref import equality, spec

ID = "C08"
LEVEL = "exploration"

CLS = {3: Draft3Validator, 4: Draft4Validator, 6: Draft6Validator, 7: Draft7Validator}
DRAFTS = (3, 4, 6, 7)
B53 = 2 ** 53

ATOMS = [None, True, False, 0, 1, 0.0, 1.0, -0.0, 2, B53, B53 + 1, float(B53), "", "a", "1", "true"]

# reduced atom sets for the products that would otherwise explode
R_QUICK = [True, 1, 1.0, False, 0, "a"]
R_THOROUGH = [True, 1, 1.0, False, 0, 0.0, -0.0, "a", "1", None, B53 + 1, float(B53)]
R_SMALL = [True, 1, 1.0, False, 0]


def dedup(values):
    seen, out = set(), []
    for v in values:
        k = json.dumps(v)          # keeps 1 / 1.0 / true, 0.0 / -0.0 and key order apart
        if k not in seen:
            seen.add(k)
            out.append(v)
    return out


def build_V(tier):
    A = ATOMS
    R = R_THOROUGH if tier == "thorough" else R_QUICK
    P2 = list(itertools.product(R, R))
    v = list(A)
    # depth 1
    v += [[]] + [[x] for x in A] + [[x, y] for x in A for y in A]
    v += [{}] + [{"a": x} for x in A] + [{"b": x} for x in R]
    v += [{"a": x, "b": y} for x, y in P2] + [{"b": y, "a": x} for x, y in P2]
    # depth 2
    v += [[[x]] for x in A] + [[{"a": x}] for x in A] + [{"a": [x]} for x in A] + [{"a": {"a": x}} for x in A]
    v += [[[x, y]] for x, y in P2] + [[[x], [y]] for x, y in P2]
    v += [[x, [y]] for x, y in P2] + [[[x], y] for x, y in P2]
    v += [[{"a": x}, {"a": y}] for x, y in P2] + [{"a": [x, y]} for x, y in P2]
    v += [{"a": {"a": x, "b": y}} for x, y in P2] + [{"a": {"b": y, "a": x}} for x, y in P2]
    if tier == "thorough":
        S = R_SMALL
        v += [[[x, y], [z]] for x in S for y in S for z in S]
        v += [[{"a": x, "b": y}, [z]] for x in S for y in S for z in S]
        v += [{"a": [x, y], "b": {"a": z}} for x in S for y in S for z in S]
        v += [{"b": {"a": z}, "a": [x, y]} for x in S for y in S for z in S]
        v += [[[x, y], [z, w]] for x in S for y in S for z in S[:3] for w in S[:3]]
    return dedup(v)


def build_A():
    """40 values: 14 hashable, 11 unhashable-but-orderable, 15 not orderable (dicts inside)."""
    hashable = [None, True, False, 0, 1, 1.0, 0.0, -0.0, B53, B53 + 1, float(B53), "a", "1", ""]
    sortable = [[0], [1], [True], [False], [1.0], [0, 1], [1, 0], [], ["a"], [[1]], [[True]]]
    unsortable = [{"a": 1}, {"a": True}, {"a": 1.0}, {}, {"a": 0}, {"a": False}, {"a": 1, "b": 2},
                  {"b": 2, "a": 1}, [{"a": 1}], [{"a": True}], {"a": [1]}, {"a": [True]},
                  [B53 + 1], [float(B53)], [B53]]
    return dedup(hashable + sortable + unsortable)


_V = {}
_K = {}
_X = {}
A40 = build_A()
KA40 = [equality.key(e) for e in A40]
UNIQ = {d: CLS[d]({"uniqueItems": True}) for d in DRAFTS}


def twin(x):
    """Swap booleans and the numbers Python confuses them with, at every depth."""
    if x is True:
        return 1
    if x is False:
        return 0
    if isinstance(x, (int, float)) and x == 1:
        return True
    if isinstance(x, (int, float)) and x == 0:
        return False
    if isinstance(x, list):
        return [twin(e) for e in x]
    if isinstance(x, dict):
        return {k: twin(v) for k, v in x.items()}
    return x


def distractor(V, ia):
    """First enum member of the two-member form: the bool<->number twin of a
    when a contains such atoms (a near miss that must not be confused with a),
    otherwise a's predecessor in V (usually the same shape with another atom)."""
    a = V[ia]
    t = twin(a)
    if json.dumps(t) != json.dumps(a):
        return t
    return V[ia - 1]


def get_V(tier):
    if tier not in _V:
        V = build_V(tier)
        _V[tier] = V
        _K[tier] = [equality.key(v) for v in V]
        _X[tier] = [distractor(V, i) for i in range(len(V))]
    return _V[tier], _K[tier], _X[tier]


def selfcheck(V, K):
    """The canonical form of mc/ref/equality.py and that of mc/ref/spec.py must
    induce the same partition (two independently written oracles)."""
    p1, p2 = {}, {}
    for i, v in enumerate(V):
        p1.setdefault(K[i], []).append(i)
        p2.setdefault(spec.canon(v), []).append(i)
    if sorted(p1.values()) != sorted(p2.values()):
        raise AssertionError("C08 oracle self-check: equality.key and spec.canon disagree")
    return len(p1)


def plan(ctx):
    V, K, X = get_V(ctx.tier)
    classes = selfcheck(V, K)
    selfcheck(A40, KA40)
    nsh = 96 if ctx.tier == "quick" else 192
    units = [("pairs", i, nsh) for i in range(nsh)]
    lens = (3,) if ctx.tier == "quick" else (3, 4)
    for n in lens:
        if n == 3:
            units += [("arrays", 3, i, 0, 1) for i in range(len(A40))]
        else:
            units += [("arrays", 4, i, j, 4) for i in range(len(A40)) for j in range(4)]
    units += [("shared", d, i, 4) for d in DRAFTS for i in range(4)]
    units += [("ordered", d, i, 4) for d in DRAFTS for i in range(4)]
    units += [("mutated", d, i, 2) for d in DRAFTS for i in range(2)]
    units += [("long", d, pi) for d in DRAFTS for pi in range(len(LONG_PAIRS))]
    units += [("aliased", d, i, 2) for d in DRAFTS for i in range(2)]
    for d in ((7, 3) if ctx.tier == "quick" else DRAFTS):
        for ci in range(len(T_CASES)):
            for form in (("enum1", "const", "uniqueItems") if d >= 6 else ("enum1", "uniqueItems")):
                for shared in (False, True):
                    units.append(("threads", d, ci, form, shared, "call", 2 if ctx.thorough else 1))
                    if ci == 0:
                        units.append(("threads", d, ci, form, shared, "line", 1))
    return {
        "units": units,
        "rule": ("A: enum members / const values / array elements that hold the SAME container object (by identity), "
                 "for every container of the 40-value sub-universe against every value.  L: arrays of 9, 17, 33, 65, 129, 257 (thorough: 513, 1025) elements -- mixed containers and scalars, "
                 "pairwise different except one pair out of 10 (1 / 1.0 inside arrays and objects, key order, true / 1, "
                 "[] / {}) placed adjacent, at the ends, or around the middle -- through uniqueItems and as enum "
                 "member lists.  T: two real threads validate the SAME instance object against the SAME schema object (one validator "
                 "or two) under the baton scheduler, every schedule with <= 1 preemption at call (and line) "
                 "granularity, 4 container pairs x enum / const / uniqueItems.  M: for every ordered pair of the 40-value sub-universe one array object [a, b] and one validator: "
                 "validated as built, after the second element was replaced in place by a copy of the first, after "
                 "it was restored, after the array was reversed in place.  O: every ordered pair of the 40-value sub-universe with the objects of either or both sides given "
                 "as collections.OrderedDict (what json.load(object_pairs_hook=OrderedDict) produces), member order "
                 "kept or reversed, const / enum / uniqueItems.  S: one long-lived validator object per draft is handed a NEW schema object for every call "
                 "(is_valid(instance, schema)), for every ordered pair of the 40-value sub-universe and the four "
                 "forms in turn, so anything remembered about a schema object that no longer exists would be "
                 "observed.  P: every ordered pair (a, b) of the universe V (JSON values of depth <= 2, width <= 2 over 16 "
                 "atoms; V is de-duplicated by JSON text, so 1 / 1.0 / true and the two key orders stay "
                 "distinct members) is executed as {const: a} on b (drafts 6, 7), {enum: [a]} on b, "
                 "{enum: [x(a), a]} on b and {uniqueItems: true} on [a, b] (drafts 3, 4, 6, 7): 14 executions per "
                 "pair, each (form, draft, a, b) generated once.  A: every array of length 3 (thorough: and 4) over "
                 "the 40-value sub-universe x 4 drafts, each (draft, tuple) generated once.  Non-trivial = the "
                 "compared values belong to the same family (null / boolean-or-number / string / array / object), "
                 "so the answer is not settled by the top-level JSON kind; for arrays: at least two elements of "
                 "one family"),
        "bounds": {"V": len(V), "V_equality_classes": classes, "ordered_pairs": len(V) ** 2,
                   "forms_x_drafts_per_pair": 14, "array_alphabet": len(A40), "array_lengths": list(lens),
                   "arrays": sum(len(A40) ** n for n in lens), "atoms": len(ATOMS), "tier": ctx.tier},
        "assumptions": ["mc/ref/equality.py decides JSON equality (canonical form with exact rationals; "
                        "cross-checked per pair against a direct recursive decider and, per universe, against "
                        "the canonical form of mc/ref/spec.py)"],
    }


# ---------------------------------------------------------------- observation

def observe(v, inst):
    try:
        return v.is_valid(inst)
    except Exception as e:     # noqa: a crash is an observation, not a harness error
        return "crash-" + type(e).__name__


def build_case(form, a, b, x=None):
    if form == "const":
        return {"const": a}, b
    if form == "enum1":
        return {"enum": [a]}, b
    if form == "enum2":
        return {"enum": [x, a]}, b
    if form == "uniqueItems":
        return {"uniqueItems": True}, [a, b]
    raise KeyError(form)


def kind_of(form, got, exp):
    """Name the failure in terms of the equality relation."""
    if got is exp:
        return None
    if got is not True and got is not False:
        return got
    if form == "uniqueItems":
        return "says-equal" if got is False else "says-unequal"
    return "says-equal" if got is True else "says-unequal"


def check_schema_ok(d, S):
    try:
        CLS[d].check_schema(S)
        return True
    except exceptions.SchemaError:
        return False


def fails(d, S, inst):
    """(kind or None, got, exp) for an arbitrary C08 schema / instance."""
    exp = equality.expected_valid(S, inst)
    got = observe(CLS[d](S), inst)
    form = "uniqueItems" if "uniqueItems" in S else "x"
    return kind_of(form, got, exp), got, exp


def pair_kind(form, d, a, b, x=None):
    S, inst = build_case(form, a, b, x)
    return fails(d, S, inst)[0]


# ------------------------------------------------------------------ shrinking

def pair_candidates(a, b):
    if isinstance(a, list) and isinstance(b, list) and len(a) == len(b):
        for i in range(len(a)):
            yield a[i], b[i]
        for i in range(len(a)):
            yield a[:i] + a[i + 1:], b[:i] + b[i + 1:]
    if isinstance(a, dict) and isinstance(b, dict):
        for k in a:
            if k in b:
                yield a[k], b[k]
        for k in a:
            if k in b:
                yield ({kk: vv for kk, vv in a.items() if kk != k},
                       {kk: vv for kk, vv in b.items() if kk != k})
    # the same moves applied to a pair of children, in place
    if isinstance(a, list) and isinstance(b, list) and len(a) == len(b):
        for i in range(len(a)):
            for p, q in pair_candidates(a[i], b[i]):
                yield a[:i] + [p] + a[i + 1:], b[:i] + [q] + b[i + 1:]
    if isinstance(a, dict) and isinstance(b, dict):
        for k in a:
            if k in b:
                for p, q in pair_candidates(a[k], b[k]):
                    yield ({kk: (p if kk == k else vv) for kk, vv in a.items()},
                           {kk: (q if kk == k else vv) for kk, vv in b.items()})


def shrink_by(still_fails, a, b):
    """Greedy structural shrinking of a pair (descend into / delete matching parts)."""
    changed = True
    while changed:
        changed = False
        for a2, b2 in pair_candidates(a, b):
            if still_fails(a2, b2):
                a, b, changed = a2, b2, True
                break
    return a, b


def shrink_pair(form, d, a, b, x, kind):
    a, b = shrink_by(lambda p, q: pair_kind(form, d, p, q, x) == kind, a, b)
    if form == "enum2" and pair_kind(form, d, a, b, "zz") == kind:
        x = "zz"
    return a, b, x


def three_way(d, a, b):
    """Which of the forms say 'equal' (None when they agree or one crashes)."""
    forms = ["enum1", "uniqueItems"] + (["const"] if d >= 6 else [])
    says = {}
    for f in forms:
        S, inst = build_case(f, a, b)
        g = observe(CLS[d](S), inst)
        if g is not True and g is not False:
            return None, {}
        says[f] = (not g) if f == "uniqueItems" else g
    if len(set(says.values())) <= 1:
        return None, says
    return "+".join(sorted(f for f, g in says.items() if g)), says


def leafdiffs(a, b, depth=0):
    ta, tb = equality.jtype(a), equality.jtype(b)
    if ta != tb:
        yield depth, "-vs-".join(sorted((ta, tb)))
        return
    if ta == "number":
        if type(a) is type(b) and repr(a) == repr(b):
            return
        if equality.jeq(a, b):
            yield depth, ("equal-numbers-int-vs-float" if type(a) is not type(b) else "equal-numbers-signed-zero")
            return
        try:
            same = float(a) == float(b)
        except OverflowError:
            same = False
        yield depth, ("numbers-equal-only-after-float-coercion" if same else "different-numbers")
    elif ta == "array":
        if len(a) != len(b):
            yield depth, "array-lengths"
        else:
            for p, q in zip(a, b):
                for r in leafdiffs(p, q, depth + 1):
                    yield r
    elif ta == "object":
        if set(a) != set(b):
            yield depth, "object-keys"
        else:
            if list(a) != list(b):
                yield depth, "key-order"
            for k in a:
                for r in leafdiffs(a[k], b[k], depth + 1):
                    yield r
    elif a != b:
        yield depth, "different-%ss" % ta


def diffclass(a, b):
    ds = list(leafdiffs(a, b))
    if not ds:
        return "identical", "top" if not isinstance(a, (list, dict)) else "nested"
    return "+".join(sorted(set(c for _, c in ds))), ("top" if max(dd for dd, _ in ds) == 0 else "nested")


def elemclass(arr):
    cont = [isinstance(e, (list, dict)) for e in arr]
    if all(cont):
        return "unhashable-elements"
    if not any(cont):
        return "hashable-elements"
    return "mixed-elements"


def size_of(*xs):
    return sum(len(json.dumps(x)) for x in xs)


def pair_violation(form, d, a, b, x, kind, extra=None):
    a0, x0 = a, x
    if form == "enum2":
        # which member is being confused with b?  If a single-member enum of
        # one of them already fails the same way, shrink (that member, b) and
        # keep a neutral first member, so that the signature describes the
        # pair that is actually confused.
        for m in (a, x):
            if pair_kind("enum1", d, m, b) == kind and pair_kind("enum2", d, m, b, "zz") == kind:
                a, x = m, "zz"
                break
    a2, b2, x2 = shrink_pair(form, d, a, b, x, kind)
    a, x = a0, x0
    dc, where = diffclass(a2, b2)
    S, inst = build_case(form, a2, b2, x2)
    sig = "C08|%s|%s|%s|%s" % (form, kind, dc, where)
    S0, inst0 = build_case(form, a, b, x)
    detail = {"unshrunk": {"schema": S0, "instance": inst0}, "a": a2, "b": b2,
              "json_equal": equality.jeq(a2, b2), "python_equal": a2 == b2}
    if extra:
        detail.update(extra)
    return {"signature": sig, "size": size_of(S, inst),
            "case": {"draft": d, "form": form, "schema": S, "instance": inst}, "detail": detail}


def array_violation(d, arr, kind):
    cur = list(arr)
    changed = True
    while changed and len(cur) > 2:
        changed = False
        for i in range(len(cur)):
            cand = cur[:i] + cur[i + 1:]
            if fails(d, {"uniqueItems": True}, cand)[0] == kind:
                cur, changed = cand, True
                break
    if len(cur) == 2:
        return pair_violation("uniqueItems", d, cur[0], cur[1], None, kind,
                              {"found_by": "array enumeration", "unshrunk_array": arr})
    ks = [equality.key(e) for e in cur]
    dup = [(i, j) for i in range(len(cur)) for j in range(i + 1, len(cur)) if ks[i] == ks[j]]
    if dup:
        i, j = dup[0]
        between = cur[i + 1:j]
        dc = "duplicates-%s" % ("adjacent" if j == i + 1 else "separated-by-%s" % (
            "python-equal-element" if any(e == cur[i] for e in between) else "other-element"))
    else:
        conf = [(i, j) for i in range(len(cur)) for j in range(i + 1, len(cur)) if cur[i] == cur[j]]
        if conf:
            dc = "no-duplicate-but-python-equal-pair:%s:%s" % diffclass(cur[conf[0][0]], cur[conf[0][1]])
        else:
            dc = "no-duplicate-and-no-failing-pair"
    sig = "C08|uniqueItems|%s|array-of-%d|%s|%s" % (kind, len(cur), elemclass(cur), dc)
    return {"signature": sig, "size": size_of(cur),
            "case": {"draft": d, "form": "uniqueItems-array", "schema": {"uniqueItems": True}, "instance": cur},
            "detail": {"unshrunk_array": arr, "duplicate_positions": dup}}


class Bag(object):
    """Keeps the 3 smallest violations per signature, counts all of them."""

    def __init__(self):
        self.by_sig = {}
        self.total = 0

    def add(self, v):
        self.total += 1
        lst = self.by_sig.setdefault(v["signature"], [])
        lst.append(v)
        lst.sort(key=lambda w: (w["size"], json.dumps(w["case"])))
        del lst[3:]

    def all(self):
        return [v for s in sorted(self.by_sig) for v in self.by_sig[s]]


FAMILY = {"null": 0, "boolean": 1, "number": 1, "string": 2, "array": 3, "object": 4}


def family(x):
    return FAMILY[equality.jtype(x)]


# ---------------------------------------------------------------------- units

def run_pairs(unit, ctx):
    _, shard, nsh = unit
    V, K, X = get_V(ctx.tier)
    fam = [family(v) for v in V]
    bag = Bag()
    ev = nt = nschemas = 0
    outcomes, samples = {}, []
    n = len(V)
    for ia in range(shard, n, nsh):
        a, ka, x = V[ia], K[ia], X[ia]
        kx = equality.key(x)
        if kx == ka:
            raise AssertionError("C08: distractor equals a: %r" % (a,))
        vc = {d: CLS[d]({"const": a}) for d in (6, 7)}
        v1 = {d: CLS[d]({"enum": [a]}) for d in DRAFTS}
        v2 = {d: CLS[d]({"enum": [x, a]}) for d in DRAFTS}
        # Every schema is valid by construction (enum arrays are non-empty and
        # their members are pairwise different as JSON data), so the real
        # check_schema must let it through; the metaschemas of drafts 3/4/6
        # apply uniqueItems to enum, which makes a refusal a C08 symptom.
        for vs in (vc, v1, v2):
            for d, val in vs.items():
                nschemas += 1
                if not check_schema_ok(d, val.schema):
                    form = "const" if vs is vc else ("enum1" if vs is v1 else "enum2")
                    dc, where = diffclass(x, a) if form == "enum2" else ("-", "-")
                    bag.add({"signature": "C08|check_schema-refuses|%s|%s|%s" % (form, dc, where),
                             "size": size_of(val.schema),
                             "case": {"draft": d, "form": "check_schema", "schema": val.schema},
                             "detail": {"note": "schema is valid under the draft's metaschema"}})
        for ib in range(n):
            b = V[ib]
            eq = ka == K[ib]
            if equality.jeq(a, b) is not eq:
                raise AssertionError("C08 oracle self-check: key/jeq disagree on %r %r" % (a, b))
            eq2 = eq or kx == K[ib]
            ab = [a, b]
            got = {}
            for d in (6, 7):
                got["const", d] = observe(vc[d], b)
            for d in DRAFTS:
                got["enum1", d] = observe(v1[d], b)
                got["enum2", d] = observe(v2[d], b)
                got["uniqueItems", d] = observe(UNIQ[d], ab)
            ev += 14
            if fam[ia] == fam[ib]:
                nt += 14
            pc = ("equal-identical-text" if ia == ib else "equal-different-text") if eq else (
                "unequal-but-python-equal" if a == b else "unequal")
            outcomes[pc] = outcomes.get(pc, 0) + 14
            for (form, d), g in got.items():
                exp = (eq2 if form == "enum2" else (not eq if form == "uniqueItems" else eq))
                if g is not exp:
                    bag.add(pair_violation(form, d, a, b, x, kind_of(form, g, exp)))
            # oracle-free three-way agreement const <=> enum <=> not uniqueItems
            for d in DRAFTS:
                said = {"enum1": got["enum1", d], "uniqueItems": got["uniqueItems", d]}
                if d >= 6:
                    said["const"] = got["const", d]
                if any(g is not True and g is not False for g in said.values()):
                    continue        # crashes are reported above
                if len(set((not g) if f == "uniqueItems" else g for f, g in said.items())) > 1:
                    yes = three_way(d, a, b)[0]
                    a2, b2 = shrink_by(lambda p, q: three_way(d, p, q)[0] == yes, a, b)
                    dc, where = diffclass(a2, b2)
                    bag.add({"signature": "C08|three-way|only-%s-say-equal|%s|%s" % (yes, dc, where),
                             "size": size_of(a2, b2),
                             "case": {"draft": d, "form": "three-way", "a": a2, "b": b2},
                             "detail": {"equal_according_to": three_way(d, a2, b2)[1],
                                        "json_equal": equality.jeq(a2, b2), "unshrunk": {"a": a, "b": b}}})
            if len(samples) < 2 and (ia * 31 + ib) % 9973 == 17:
                samples.append({"draft": 7, "schema": {"const": a}, "instance": b,
                                "also": [{"enum": [a]}, {"enum": [x, a]}, {"uniqueItems [a,b]": ab}],
                                "json_equal": eq})
    return {"evaluations": ev, "nontrivial": nt, "violations": bag.all(), "samples": samples,
            "outcomes": outcomes,
            "counters": {"violating_executions": bag.total, "pairs": ev // 14,
                         "schemas_passed_through_check_schema": nschemas}}


def run_arrays(unit, ctx):
    _, length, i0, jshard, jn = unit
    bag = Bag()
    ev = nt = 0
    outcomes, samples = {}, []
    idx = range(len(A40))
    rest = [idx] * (length - 1)
    count = 0
    for tail in itertools.product(*rest):
        if tail[0] % jn != jshard:
            continue
        t = (i0,) + tail
        arr = [A40[i] for i in t]
        ks = [KA40[i] for i in t]
        uniq = len(set(ks)) == length
        if uniq:
            oc = "unique"
        elif any(ks[i] == ks[i + 1] for i in range(length - 1)):
            oc = "duplicate-adjacent"
        else:
            oc = "duplicate-far"
        oc = "array:%s:%s" % (elemclass(arr), oc)
        fams = [family(e) for e in arr]
        nontriv = len(set(fams)) < length
        for d in DRAFTS:
            g = observe(UNIQ[d], arr)
            ev += 1
            nt += nontriv
            if g is not uniq:
                bag.add(array_violation(d, arr, kind_of("uniqueItems", g, uniq)))
        outcomes[oc] = outcomes.get(oc, 0) + 4
        count += 1
        if len(samples) < 2 and count % 977 == 5:
            samples.append({"draft": 4, "schema": {"uniqueItems": True}, "instance": arr, "expected_valid": uniq})
    return {"evaluations": ev, "nontrivial": nt, "violations": bag.all(), "samples": samples,
            "outcomes": outcomes, "counters": {"violating_executions": bag.total, "arrays": count}}


def fresh_copy(x):
    return json.loads(json.dumps(x))


def shared_step(w, form, a, x, b):
    """One call on the long-lived validator `w` with a schema object that lives for this call only."""
    if form == "const":
        return observe_with(w, b, {"const": fresh_copy(a)})
    if form == "enum1":
        return observe_with(w, b, {"enum": [fresh_copy(a)]})
    if form == "enum2":
        return observe_with(w, b, {"enum": [fresh_copy(x), fresh_copy(a)]})
    return observe_with(w, [fresh_copy(a), b], {"uniqueItems": True})


def observe_with(w, inst, schema):
    try:
        return w.is_valid(inst, schema)
    except Exception as e:     # noqa
        return "crash-" + type(e).__name__


def run_shared(unit, ctx):
    """ONE validator object per draft answers for many short-lived schemas (is_valid(instance, schema), the way
    `descend` uses it): every ordered pair of the 40-value sub-universe, the four forms one after the other."""
    _, d, shard, nsh = unit
    w = CLS[d]({})
    bag = Bag()
    ev = nt = 0
    outcomes = {}
    n = len(A40)
    prev = None
    for ia in range(shard, n, nsh):
        a, ka = A40[ia], KA40[ia]
        x = A40[(ia + 7) % n]
        kx = KA40[(ia + 7) % n]
        if kx == ka:
            x, kx = A40[(ia + 8) % n], KA40[(ia + 8) % n]
        for ib in range(n):
            b = A40[ib]
            eq = ka == KA40[ib]
            for form in (("const", "enum1", "enum2", "uniqueItems") if d >= 6 else ("enum1", "enum2", "uniqueItems")):
                g = shared_step(w, form, a, x, b)
                exp = (eq or kx == KA40[ib]) if form == "enum2" else ((not eq) if form == "uniqueItems" else eq)
                ev += 1
                nt += family(a) == family(b)
                oc = "shared:%s:%s" % (form, "valid" if exp else "invalid")
                outcomes[oc] = outcomes.get(oc, 0) + 1
                if g is not exp:
                    bag.add({"signature": "C08|shared-validator|%s|%s" % (form, kind_of(form, g, exp)),
                             "size": size_of(a, b),
                             "case": {"draft": d, "form": "shared-validator", "calls": [prev, [form, a, x, b]] if prev else [[form, a, x, b]]},
                             "detail": {"observed": g, "expected_valid": exp,
                                        "note": "one validator object, a new schema object for every call"}})
                prev = [form, a, x, b]
    return {"evaluations": ev, "nontrivial": nt, "violations": bag.all(), "samples": [],
            "outcomes": outcomes, "counters": {"violating_executions": bag.total, "shared_validator_calls": ev}}


def as_ordered(x, reverse):
    """The same JSON value as json.load(..., object_pairs_hook=OrderedDict) gives it (optionally with the members
    written in the opposite order): OrderedDict's own == is order-sensitive, JSON object equality is not."""
    if isinstance(x, dict):
        items = [(k, as_ordered(v, reverse)) for k, v in x.items()]
        return collections.OrderedDict(items[::-1] if reverse else items)
    if isinstance(x, list):
        return [as_ordered(v, reverse) for v in x]
    return x


def run_ordered(unit, ctx):
    """Every ordered pair of the 40-value sub-universe with the objects of one or both sides loaded as
    OrderedDict, member order kept or reversed; the four forms; same oracle (JSON equality of the plain values)."""
    _, d, shard, nsh = unit
    bag = Bag()
    ev = nt = 0
    outcomes = {}
    n = len(A40)
    variants = [("a-ordered", True, False), ("b-ordered", False, True), ("both-ordered", True, True)]
    has_obj = [json.dumps(v).find("{") >= 0 for v in A40]
    for ia in range(shard, n, nsh):
        a, ka = A40[ia], KA40[ia]
        for ib in range(n):
            if not (has_obj[ia] or has_obj[ib]):
                continue
            b = A40[ib]
            eq = ka == KA40[ib]
            for vname, oa, ob in variants:
                for rev in (False, True):
                    a2 = as_ordered(a, rev) if oa else a
                    b2 = as_ordered(b, False) if ob else b
                    for form in (("const", "enum1", "uniqueItems") if d >= 6 else ("enum1", "uniqueItems")):
                        S, inst = build_case(form, a2, b2)
                        g = observe(CLS[d](S), inst)
                        exp = (not eq) if form == "uniqueItems" else eq
                        ev += 1
                        nt += family(a) == family(b)
                        oc = "ordered:%s:%s" % (form, "equal" if eq else "unequal")
                        outcomes[oc] = outcomes.get(oc, 0) + 1
                        if g is not exp:
                            bag.add({"signature": "C08|OrderedDict-members|%s|%s|%s" % (form, kind_of(form, g, exp),
                                                                                         "reversed" if rev else "same-order"),
                                     "size": size_of(a, b),
                                     "case": {"draft": d, "form": "ordered", "which": form, "a": a, "b": b,
                                              "a_ordered": oa, "b_ordered": ob, "reversed": rev},
                                     "detail": {"observed": g, "expected_valid": exp}})
    return {"evaluations": ev, "nontrivial": nt, "violations": bag.all(), "samples": [],
            "outcomes": outcomes, "counters": {"violating_executions": bag.total, "ordered_dict_cases": ev}}


def run_mutated(unit, ctx):
    """The caller keeps ONE array object and one validator and edits the array in place between validations
    ([a, b] -> [a, a'] -> [a, b]): every verdict is about what the array holds at that moment."""
    _, d, shard, nsh = unit
    w = CLS[d]({"uniqueItems": True})
    bag = Bag()
    ev = nt = 0
    outcomes = {}
    n = len(A40)
    for ia in range(shard, n, nsh):
        a, ka = A40[ia], KA40[ia]
        for ib in range(n):
            b = A40[ib]
            eq = ka == KA40[ib]
            arr = [fresh_copy(a), fresh_copy(b)]
            steps = [("as-built", not eq)]
            g = [observe(w, arr)]
            arr[1] = fresh_copy(a)
            steps.append(("second:=copy-of-first", False))
            g.append(observe(w, arr))
            arr[1] = fresh_copy(b)
            steps.append(("second-restored", not eq))
            g.append(observe(w, arr))
            arr.reverse()
            steps.append(("reversed-in-place", not eq))
            g.append(observe(w, arr))
            for (name, exp), got in zip(steps, g):
                ev += 1
                nt += family(a) == family(b)
                oc = "mutated:%s:%s" % (name, "unique" if exp else "duplicate")
                outcomes[oc] = outcomes.get(oc, 0) + 1
                if got is not exp:
                    bag.add({"signature": "C08|array-edited-in-place|%s|%s" % (name, kind_of("uniqueItems", got, exp)),
                             "size": size_of(a, b),
                             "case": {"draft": d, "form": "mutated", "a": a, "b": b, "step": name},
                             "detail": {"observed": got, "expected_valid": exp, "verdicts_in_order": g}})
    return {"evaluations": ev, "nontrivial": nt, "violations": bag.all(), "samples": [],
            "outcomes": outcomes, "counters": {"violating_executions": bag.total, "in_place_edit_cases": ev}}


# ---- two threads comparing the SAME objects at the same time -----------------------------------------------
T_CASES = [
    # (constant in the schema, instance), both containers so that the comparison recurses; verdict per form
    (["k", 3], ["k", 2]), ({"a": [1, 2], "b": {"c": 0}}, {"a": [1, 2], "b": {"c": False}}),
    ([[1], [2], [3]], [[1], [2], [3]]), ({"a": {"b": {"c": [1, "x"]}}}, {"a": {"b": {"c": [1, "y"]}}}),
]


def t_bodies(d, ci, form, shared_validator):
    c, x = T_CASES[ci]
    c, x = fresh_copy(c), fresh_copy(x)
    if form == "uniqueItems":
        S, inst = {"uniqueItems": True}, [c, x]
    elif form == "const":
        S, inst = {"const": c}, x
    else:
        S, inst = {"enum": [c]}, x
    v1 = CLS[d](S)
    v2 = v1 if shared_validator else CLS[d](S)      # the same schema and instance OBJECTS in both threads
    return [lambda: observe(v1, inst), lambda: observe(v2, inst)]


def t_expected(ci, form):
    c, x = T_CASES[ci]
    eq = equality.jeq(c, x)
    return (not eq) if form == "uniqueItems" else eq


def run_threads(unit, ctx):
    import os
    import jsonschema
    from mc.explore import threads
    _, d, ci, form, shared, gran, bound = unit
    pkg = os.path.dirname(os.path.abspath(jsonschema.__file__))
    want = t_expected(ci, form)

    def check(results):
        for i, r in enumerate(results):
            if r is not want:
                return {"thread": i, "observed": r, "expected_valid": want}
        return None
    r = threads.explore(lambda: t_bodies(d, ci, form, shared), check, pkg, gran, bound)
    bag = Bag()
    for choices, bad in r["problems"]:
        bag.add({"signature": "C08|threads|%s|%s" % (form, "one-validator" if shared else "two-validators"),
                 "size": len(choices),
                 "case": {"draft": d, "form": "threads", "case_index": ci, "which": form, "shared_validator": shared,
                          "granularity": gran, "choices": choices}, "detail": bad})
    outcomes = {"threads-preemptions=%d" % k: v for k, v in r["by_preemptions"].items()}
    return {"evaluations": r["schedules"], "nontrivial": sum(v for k, v in r["by_preemptions"].items() if k > 0),
            "violations": bag.all(), "samples": [], "outcomes": outcomes,
            "counters": {"violating_executions": bag.total, "thread_schedules": r["schedules"]}}


# ---- long arrays: the same relation at every size ----------------------------------------------------------
LONG_SIZES = [9, 17, 33, 65, 129, 257]
LONG_PAIRS = [([1], [1.0]), ({"k": 1}, {"k": 1.0}), ([100], [1e2]), ([[0]], [[-0.0]]), ({"a": 1, "b": 2}, {"b": 2, "a": 1}),
              ([True], [1]), ({"k": [1, {"z": 0}]}, {"k": [1.0, {"z": 0}]}), (5, 5.0), ("a", "a"), ([], {})]


def long_arrays(n, pi, layout):
    """An array of n elements: n-2 pairwise different fillers (containers and scalars mixed) and the pair pi placed
    per layout: adjacent at the front / far apart (first and last) / around the middle."""
    a, b = LONG_PAIRS[pi]
    fill = []
    i = 0
    while len(fill) < n - 2:
        fill.append([{"price": 50 + i}, [10 + i], "s%d" % i, i + 1000, {"q": [i]}][i % 5])
        i += 1
    if layout == "adjacent":
        return [fresh_copy(a), fresh_copy(b)] + fill
    if layout == "ends":
        return [fresh_copy(a)] + fill + [fresh_copy(b)]
    mid = len(fill) // 2
    return fill[:mid] + [fresh_copy(a)] + fill[mid:mid + 3] + [fresh_copy(b)] + fill[mid + 3:]


def run_long(unit, ctx):
    _, d, pi = unit
    bag = Bag()
    ev = 0
    outcomes = {}
    a, b = LONG_PAIRS[pi]
    eq = equality.jeq(a, b)
    for n in LONG_SIZES + ([513, 1025] if ctx.thorough else []):
        for layout in ("adjacent", "ends", "middle"):
            arr = long_arrays(n, pi, layout)
            g = observe(UNIQ[d], arr)
            exp = not eq
            ev += 1
            oc = "long:%d:%s" % (n, "unique" if exp else "duplicate")
            outcomes[oc] = outcomes.get(oc, 0) + 1
            if g is not exp:
                bag.add({"signature": "C08|long-array|%s|%s" % (kind_of("uniqueItems", g, exp), diffclass(a, b)[0]),
                         "size": n, "case": {"draft": d, "form": "long", "n": n, "pair": pi, "layout": layout},
                         "detail": {"observed": g, "expected_valid": exp, "pair": [a, b]}})
            # the same values through enum with n members and const on the long array itself
            members = long_arrays(n, pi, layout)
            v = CLS[d]({"enum": members})
            g2 = observe(v, fresh_copy(b))
            ev += 1
            if g2 is not True:
                bag.add({"signature": "C08|long-enum|%s" % kind_of("enum1", g2, True), "size": n,
                         "case": {"draft": d, "form": "long", "n": n, "pair": pi, "layout": layout}, "detail": {"observed": g2}})
    return {"evaluations": ev, "nontrivial": ev, "violations": bag.all(), "samples": [], "outcomes": outcomes,
            "counters": {"violating_executions": bag.total, "long_array_cases": ev}}


def run_aliased(unit, ctx):
    """Schemas built in Python (or loaded from YAML with anchors) share sub-objects by identity: enum members
    [S, 1] and [S, 2] holding the SAME container S, const / instances holding the same object twice."""
    _, d, shard, nsh = unit
    bag = Bag()
    ev = nt = 0
    outcomes = {}
    cont = [i for i, v in enumerate(A40) if isinstance(v, (list, dict))]
    for ii in range(shard, len(cont), nsh):
        ia = cont[ii]
        sub = fresh_copy(A40[ia])
        for ib in range(len(A40)):
            other = A40[ib]
            same_sub = KA40[ia] == KA40[ib]
            cases = [
                ("enum-members-share", {"enum": [[sub, 1], [sub, 2]]}, [fresh_copy(other), 2], same_sub),
                ("enum-members-share-obj", {"enum": [{"from": sub, "kind": "line"}, {"from": sub, "kind": "arc"}]},
                 {"from": fresh_copy(other), "kind": "arc"}, same_sub),
                ("enum-three-members-share", {"enum": [[sub, [sub]], [sub, 0], [[sub], sub]]}, [[fresh_copy(other)], fresh_copy(other)], same_sub),
                ("unique-same-object-twice", {"uniqueItems": True}, [[sub, 1], [sub, 2], [fresh_copy(other), 2]], not same_sub),
            ]
            if d >= 6:
                cases.append(("const-shares", {"const": [sub, sub]}, [fresh_copy(other), sub], same_sub))
            for name, S, inst, _unused in cases:
                exp = equality.expected_valid(S, inst)        # the model never looks at object identity
                g = observe(CLS[d](S), inst)
                ev += 1
                nt += 1
                oc = "aliased:%s:%s" % (name, "valid" if exp else "invalid")
                outcomes[oc] = outcomes.get(oc, 0) + 1
                if g is not exp:
                    bag.add({"signature": "C08|members-share-a-container|%s|%s" % (name, "accepts" if g is True else ("rejects" if g is False else g)),
                             "size": size_of(sub, other),
                             "case": {"draft": d, "form": "aliased", "which": name, "sub": A40[ia], "other": other},
                             "detail": {"observed": g, "expected_valid": exp}})
    return {"evaluations": ev, "nontrivial": nt, "violations": bag.all(), "samples": [], "outcomes": outcomes,
            "counters": {"violating_executions": bag.total, "aliased_cases": ev}}


def run_unit(unit, ctx):
    if unit[0] == "pairs":
        return run_pairs(unit, ctx)
    if unit[0] == "aliased":
        return run_aliased(unit, ctx)
    if unit[0] == "long":
        return run_long(unit, ctx)
    if unit[0] == "threads":
        return run_threads(unit, ctx)
    if unit[0] == "mutated":
        return run_mutated(unit, ctx)
    if unit[0] == "ordered":
        return run_ordered(unit, ctx)
    if unit[0] == "shared":
        return run_shared(unit, ctx)
    return run_arrays(unit, ctx)


def replay(case, ctx):
    d = case["draft"]
    if case["form"] == "check_schema":
        ok = check_schema_ok(d, case["schema"])
        return {"reproduced": not ok, "check_schema_accepts": ok}
    if case["form"] == "aliased":
        r = run_aliased(("aliased", d, 0, 1), ctx)
        hit = [v for v in r["violations"] if v["case"]["which"] == case["which"]]
        return {"reproduced": bool(hit), "violations": len(r["violations"])}
    if case["form"] == "long":
        a, b = LONG_PAIRS[case["pair"]]
        arr = long_arrays(case["n"], case["pair"], case["layout"])
        g = observe(UNIQ[d], arr)
        return {"reproduced": g is not (not equality.jeq(a, b)), "observed": g}
    if case["form"] == "threads":
        import os
        import jsonschema
        from mc.explore import threads
        pkg = os.path.dirname(os.path.abspath(jsonschema.__file__))
        sc = threads.Sched(t_bodies(d, case["case_index"], case["which"], case["shared_validator"]), case["choices"], pkg,
                           case["granularity"])
        results, points = sc.run()
        want = t_expected(case["case_index"], case["which"])
        return {"reproduced": any(r is not want for r in results), "results": results, "expected_valid": want}
    if case["form"] == "mutated":
        w = CLS[d]({"uniqueItems": True})
        a, b = case["a"], case["b"]
        eq = equality.jeq(a, b)
        arr = [fresh_copy(a), fresh_copy(b)]
        seq = [("as-built", not eq, observe(w, arr))]
        arr[1] = fresh_copy(a)
        seq.append(("second:=copy-of-first", False, observe(w, arr)))
        arr[1] = fresh_copy(b)
        seq.append(("second-restored", not eq, observe(w, arr)))
        arr.reverse()
        seq.append(("reversed-in-place", not eq, observe(w, arr)))
        bad = [s for s in seq if s[2] is not s[1]]
        return {"reproduced": bool(bad), "steps": seq}
    if case["form"] == "ordered":
        a2 = as_ordered(case["a"], case["reversed"]) if case["a_ordered"] else case["a"]
        b2 = as_ordered(case["b"], False) if case["b_ordered"] else case["b"]
        S, inst = build_case(case["which"], a2, b2)
        g = observe(CLS[d](S), inst)
        eq = equality.jeq(case["a"], case["b"])
        exp = (not eq) if case["which"] == "uniqueItems" else eq
        return {"reproduced": g is not exp, "observed": g, "expected_valid": exp}
    if case["form"] == "shared-validator":
        w = CLS[d]({})
        got = None
        for form, a, x, b in case["calls"]:
            got = shared_step(w, form, a, x, b)
        form, a, x, b = case["calls"][-1]
        S, inst = build_case(form, a, b, x)
        exp = equality.expected_valid(S, inst)
        return {"reproduced": got is not exp, "observed": got, "expected_valid": exp}
    if case["form"] == "three-way":
        a, b = case["a"], case["b"]
        yes, says = three_way(d, a, b)
        return {"reproduced": yes is not None, "equal_according_to": says,
                "json_equal": equality.jeq(a, b)}
    S, inst = case["schema"], case["instance"]
    if not check_schema_ok(d, S):
        return {"reproduced": False, "note": "schema rejected by check_schema"}
    kind, got, exp = fails(d, S, inst)
    return {"reproduced": kind is not None, "kind": kind, "observed": got, "expected_valid": exp}
