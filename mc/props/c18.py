"""C18 — validators that share no resolver are independent under any interleaving.

Part A: every interleaving of next()/close() steps of 2-3 error iterators that
belong to different validator objects colliding on every key a shared cache
could use.  Part B: whole validations in 2-3 real threads under a baton
scheduler (sys.settrace), every schedule with at most `bound` preemptions.
Expected results come from the reference-free (inlined) schemas, not from solo
runs of the same code paths.
"""
import copy
import importlib
import itertools
import json
import os
import sys

import jsonschema
from jsonschema import FormatChecker, RefResolver, exceptions

from mc.explore import threads
from mc.props import _e1
from mc.ref import resolver as refmodel

ID = "C18"
LEVEL = "model_checking"

URL = "http://h.invalid/r.json"          # served from each validator's own store
HURL = "http://h.invalid/h.json"         # served by each validator's own handler
PKG = os.path.dirname(os.path.abspath(jsonschema.__file__))

# per validator: local definition, remote document, format predicate, instance
VARIANTS = [
    {"T": {"type": "integer"}, "R": {"d": {"minimum": 2}}, "Hd": {"d": {"maximum": 2}},
     "fmt": lambda s: s == "x", "inst": [1, "x", 2.5, "ay"], "dis": "string"},
    {"T": {"type": "string"}, "R": {"d": {"maxLength": 1}}, "Hd": {"d": {"minLength": 2}},
     "fmt": lambda s: s == "ay", "inst": [1, "x", "ay"], "dis": "integer"},
    {"T": {"type": "number"}, "R": {"d": {"enum": [1, "x"]}}, "Hd": {"d": {"enum": [2.5, "a"]}},
     "fmt": lambda s: False, "inst": ["x", 2.5, "a"], "dis": "null"},
]


# twins: schemas that are EQUAL as Python objects (1 == True, 0 == False) and different as JSON, validated by
# validators built the plain way (no resolver, no handlers, no store): everything a cache could key on is equal
VARIANTS += [
    {"twin": {"enum": [1, "x"]}, "inst": [1, True, "x", 0]},
    {"twin": {"enum": [True, "x"]}, "inst": [1, True, "x", 0]},
    {"twin": {"enum": [0]}, "inst": [0, False, 1]},
    {"twin": {"enum": [False]}, "inst": [0, False, 1]},
]


def schema_for(d, var):
    if "twin" in var:
        return {"definitions": {"a": var["twin"]}, "items": {"$ref": "#/definitions/a"}}
    both = [{"$ref": "#/definitions/a"}, {"$ref": URL + "#/d"}, {"$ref": HURL + "#/d"}]
    item = {"pattern": "^a", "format": "f"}
    item["allOf" if d >= 4 else "extends"] = both
    if d == 3:
        item["disallow"] = [var["dis"]]       # same keyword, different type names, in every draft 3 variant
    return {"definitions": {"a": var["T"]}, "items": item}


def split(k):
    """A consumer is a variant index, or (variant index, "alias"): its resolver is constructed with the *store
    object of the first consumer's resolver* (documented to be copied, never adopted)."""
    return (k[0], True) if isinstance(k, (tuple, list)) else (k, False)


def make_validator(d, k, store_from=None):
    k, alias = split(k)
    var = VARIANTS[k]
    S = schema_for(d, var)
    if "twin" in var:
        v = _e1.CLS[d](S)
        return v, v.resolver
    fc = FormatChecker(formats=[])
    fc.checks("f")(lambda inst, f=var["fmt"]: (not isinstance(inst, str)) or f(inst))
    cls = _e1.CLS[d]
    store = store_from if (alias and store_from is not None) else {URL: copy.deepcopy(var["R"])}
    r = RefResolver.from_schema(S, id_of=cls.ID_OF, store=store,
                                handlers={"http": lambda uri, doc=var["Hd"]: copy.deepcopy(doc)})
    return cls(S, resolver=r, format_checker=fc), r


def ident(e):
    return (e.validator, e.message, tuple(e.absolute_path), tuple(e.absolute_schema_path))


_expected = {}


def expected(d, k, short=False, first=None):
    """Errors of the reference-free equivalent (references written out by the designation model).  A consumer
    whose resolver was given the first consumer's store sees that consumer's store document under URL."""
    if short:
        n = 2 if short is True else short
        return [e for e in expected(d, k, False, first) if e[2][0] < n]      # the errors of the first n elements
    k, alias = split(k)
    rdoc = (VARIANTS[split(first)[0]]["R"] if (alias and first is not None) else VARIANTS[k]["R"]) \
        if "twin" not in VARIANTS[k] else None
    if "twin" in VARIANTS[k]:
        key = (d, k, "twin")
        if key not in _expected:
            S = schema_for(d, VARIANTS[k])
            I = refmodel.inline(refmodel.World(d, S, {}), S)
            _expected[key] = [(e.validator, e.message, tuple(e.absolute_path))
                              for e in _e1.CLS[d](I).iter_errors(VARIANTS[k]["inst"])]
        return _expected[key]
    key = (d, k, json.dumps(rdoc))
    if key not in _expected:
        var = VARIANTS[k]
        S = schema_for(d, var)
        w = refmodel.World(d, S, {URL: rdoc, HURL: var["Hd"]})
        I = refmodel.inline(w, S)
        fc = FormatChecker(formats=[])
        fc.checks("f")(lambda inst, f=var["fmt"]: (not isinstance(inst, str)) or f(inst))
        errs = [(e.validator, e.message, tuple(e.absolute_path)) for e in _e1.CLS[d](I, format_checker=fc).iter_errors(var["inst"])]
        _expected[key] = errs
    return _expected[key]


def strip(ids):
    return [(a, b, c) for (a, b, c, _) in ids]


# ------------------------------------------------------------------ part A
def programs(n_errors):
    """What one consumer does with its iterator: exhaust it, or take k errors and close it."""
    progs = [("exhaust", n_errors + 1)]
    for k in (1, 2):
        if k <= n_errors:
            progs.append(("close-after", k))
    return progs


def interleavings(counts):
    """All sequences over thread ids where id i occurs counts[i] times."""
    total = sum(counts)

    def rec(rem, acc):
        if len(acc) == total:
            yield tuple(acc)
            return
        for i in range(len(rem)):
            if rem[i]:
                rem[i] -= 1
                acc.append(i)
                yield from rec(rem, acc)
                acc.pop()
                rem[i] += 1
    yield from rec(list(counts), [])


A_LEN = {"n": 4}


def run_interleaving(d, ks, progs, order):
    vals = []
    for k in ks:
        vals.append(make_validator(d, k, vals[0][1].store if vals else None))
    its = [v.iter_errors(copy.deepcopy(VARIANTS[split(k)[0]]["inst"][:A_LEN["n"]])) for (v, r), k in zip(vals, ks)]
    got = [[] for _ in ks]
    taken = [0] * len(ks)
    state = ["run"] * len(ks)
    for i in order:
        kind, n = progs[i]
        try:
            if kind == "close-after" and taken[i] == n:
                its[i].close()
                state[i] = "closed"
            else:
                e = next(its[i], None)
                taken[i] += 1
                if e is None:
                    state[i] = "exhausted"
                else:
                    got[i].append(ident(e))
        except Exception as ex:
            got[i].append(("EXC", type(ex).__name__, str(ex)[:80], ()))
            state[i] = "raised"
    problems = []
    for i, k in enumerate(ks):
        exp = expected(d, k, A_LEN["n"], ks[0])
        kind, n = progs[i]
        want = exp if kind == "exhaust" else exp[:n]
        if strip(got[i]) != want:
            problems.append({"validator": i, "variant": list(k) if isinstance(k, tuple) else k,
                             "got": strip(got[i]), "expected": want})
        r = vals[i][1]
        if r.resolution_scope != "" or len(getattr(r, "_scopes_stack", [""])) != 1:
            problems.append({"validator": i, "scope_after": r.resolution_scope})
    return problems


def steps_of(prog):
    kind, n = prog
    return n if kind == "exhaust" else n + 1       # n errors then the close() step


def part_a_configs(d, tier):
    combos = [(0, 1), (1, 2), (0, 2), (0, 1, 2), (0, (1, "alias")), (2, (0, "alias")), (3, 4), (6, 5)] if tier == "quick" else \
        [(0, 1), (1, 0), (1, 2), (0, 2), (0, 0), (0, 1, 2), (2, 1, 0), (0, (1, "alias")), (2, (0, "alias")),
         (1, (1, "alias")), (0, (2, "alias"), 1), (3, 4), (4, 3), (5, 6), (6, 5), (3, 4, 5)]
    for ks in combos:
        plist = [programs(len(expected(d, k, A_LEN["n"], ks[0]))) for k in ks]
        for progs in itertools.product(*plist):
            if len(ks) == 3 and tier == "quick" and sum(steps_of(p) for p in progs) > 8:
                continue
            yield ks, progs


# ------------------------------------------------------------------ part B
def bodies_for(d, ks, n=2):
    def mk(k):
        v, r = make_validator(d, k)
        inst = copy.deepcopy(VARIANTS[k]["inst"][:n])

        def body():
            out = strip([ident(e) for e in v.iter_errors(inst)])
            return (out, r.resolution_scope)
        return body
    return [mk(k) for k in ks]


CS_CANDIDATES = {
    # one valid candidate per draft, small, and checked through a $ref of the metaschema
    3: [{"extends": {"minLength": 1}}],
    4: [{"minLength": 1}],
    6: [{"minLength": 1}],
    7: [{"minLength": 1, "required": ["a"]}],
}
CS_EXPECT = (True,)


def cs_bodies(drafts):
    """Thread bodies that run check_schema of different draft classes (the metaschemas use $ref)."""
    def mk(d):
        cls = _e1.CLS[d]

        def body():
            out = []
            for cand in CS_CANDIDATES[d]:
                try:
                    cls.check_schema(copy.deepcopy(cand))
                    out.append(True)
                except exceptions.SchemaError:
                    out.append(False)
            return tuple(out)
        return body
    return [mk(d) for d in drafts]


def cs_check(drafts):
    def check(results):
        for i, d in enumerate(drafts):
            if results[i] != CS_EXPECT:
                return {"thread": i, "draft": d, "got": results[i], "expected": CS_EXPECT}
        return None
    return check


def check_results(d, ks, n=2):
    def check(results):
        for i, k in enumerate(ks):
            res = results[i]
            if not isinstance(res, tuple) or res[0] == "EXC" or res[0] != expected(d, k, n) or res[1] != "":
                return {"thread": i, "variant": k, "got": res, "expected": expected(d, k, n)}
        return None
    return check


def part_b_configs(tier):
    # (thread variants, granularity, preemption bound, array elements validated by each thread)
    if tier == "quick":
        return [((0, 1), "call", 2, 1), ((0, 1), "line", 1, 2), ((0, 1, 2), "call", 1, 2)]
    return [((0, 1), "call", 2, 2), ((0, 1), "line", 1, 2), ((0, 1, 2), "call", 2, 1), ((1, 2), "line", 1, 2),
            ((2, 0), "call", 2, 2)]


def cs_configs(tier):
    # (drafts whose check_schema run concurrently, granularity, bound); two preemptions are needed to get
    # "A enters, B enters, A resolves" (one preemption lets B run to completion and clean up)
    if tier == "quick":
        return [((4, 7), "call", 2)]
    return [((4, 7), "call", 2), ((3, 6), "call", 2), ((6, 4), "call", 2), ((4, 6, 7), "call", 1), ((7, 4), "line", 1)]


# ------------------------------------------------------------------ part M: schemas that carry a metaschema's id
META_URL = {3: "http://json-schema.org/draft-03/schema", 4: "http://json-schema.org/draft-04/schema",
            6: "http://json-schema.org/draft-06/schema", 7: "http://json-schema.org/draft-07/schema"}
# Customised copies of a bundled metaschema keep its id: their base URI equals a registered metaschema id, and
# the same pointer means something else in each of them and in the bundled document.
M_PTR = {3: "#/properties/minLength", 4: "#/definitions/positiveInteger",
         6: "#/definitions/nonNegativeInteger", 7: "#/definitions/nonNegativeInteger"}
M_CUSTOM = [({"type": "string"}, ["x", 1, -1, None]), ({"type": "boolean"}, [True, "x", 0]), ({"maximum": 100}, [500, 5, "x"])]
M_STOCK_INST = [{"minLength": -1, "maxLength": "x", "minItems": -2}, {"minLength": 3}]


def m_schema(d, k):
    idk = refmodel.IDK[d]
    T = M_CUSTOM[k][0]
    ptr = M_PTR[d]
    parts = ptr[2:].split("/")
    S = {idk: META_URL[d] + "#", parts[0]: {parts[1]: T}}
    both = [{"$ref": ptr}, {"$ref": META_URL[d] + ptr}]
    S["items"] = {("allOf" if d >= 4 else "extends"): both}
    return S


def m_validator(d, c):
    cls = _e1.CLS[d]
    if c == "stock":
        return cls(cls.META_SCHEMA), None
    S = m_schema(d, c)
    return cls(S), None


def m_instance(d, c, which=0):
    if c == "stock":
        return copy.deepcopy(M_STOCK_INST)
    return copy.deepcopy(M_CUSTOM[c][1])


_m_expected = {}


def m_expected(d, c):
    """custom copies: the reference-free equivalent; the bundled metaschema: recorded in the parent process
    before any customised copy has been constructed (plan() calls this first)."""
    key = (d, c)
    if key not in _m_expected:
        cls = _e1.CLS[d]
        if c == "stock":
            v = cls(cls.META_SCHEMA)
            _m_expected[key] = [sorted(ident(e)[:3] for e in v.iter_errors(x)) for x in M_STOCK_INST]
        else:
            S = m_schema(d, c)
            I = refmodel.inline(refmodel.World(d, S, {}), S)
            _m_expected[key] = [(e.validator, e.message, tuple(e.absolute_path)) for e in cls(I).iter_errors(M_CUSTOM[c][1])]
    return _m_expected[key]


M_COMBOS = [(0, 1), (1, 0), (0, "stock"), ("stock", 1), (2, "stock", 0), ("stock", 0, 1)]


def m_run(d, combo, order_kind):
    """order_kind: which consumer is constructed / consumed first is given by the combo; consumption is either
    sequential or alternating one error at a time."""
    vals = [m_validator(d, c)[0] for c in combo]
    got = [[] for _ in combo]
    if order_kind == "sequential":
        for i, c in enumerate(combo):
            got[i] = _m_consume_all(vals[i], d, c)
    else:
        its = []
        for i, c in enumerate(combo):
            if c == "stock":
                its.append(None)
            else:
                its.append(vals[i].iter_errors(m_instance(d, c)))
        live = True
        while live:
            live = False
            for i, c in enumerate(combo):
                if its[i] is None:
                    continue
                try:
                    e = next(its[i], None)
                except Exception as ex:
                    got[i].append(("EXC", type(ex).__name__, str(ex)[:60]))
                    its[i] = None
                    continue
                if e is None:
                    its[i] = None
                else:
                    got[i].append(ident(e)[:3])
                    live = True
        for i, c in enumerate(combo):
            if c == "stock":
                got[i] = _m_consume_all(vals[i], d, c)
    problems = []
    for i, c in enumerate(combo):
        if got[i] != m_expected(d, c):
            problems.append({"consumer": i, "which": c, "got": got[i], "expected": m_expected(d, c)})
    return problems


def _m_consume_all(v, d, c):
    try:
        if c == "stock":
            return [sorted(ident(e)[:3] for e in v.iter_errors(x)) for x in m_instance(d, c)]
        return [ident(e)[:3] for e in v.iter_errors(m_instance(d, c))]
    except Exception as ex:
        return [("EXC", type(ex).__name__, str(ex)[:60])]


# ------------------------------------------------------------------ part K: validators of related CLASSES
# A draft class, a Python subclass of it that overrides VALIDATORS / TYPE_CHECKER as class attributes, and a class
# derived with extend(): objects of different classes share no resolver either, whichever class is used first.
def k_classes(J, d):
    """{name: class}, built from the package object J (a fresh import for every run)."""
    from collections import OrderedDict
    base = getattr(J, "Draft%dValidator" % d)

    def loud_minimum(validator, minimum, instance, schema):
        if validator.is_type(instance, "number"):
            yield J.ValidationError("sub-minimum %r" % (minimum,))

    def loud_type(validator, types, instance, schema):
        yield J.ValidationError("sub-type")
    out = OrderedDict()
    out["base"] = base
    out["sub-validators"] = type("SubV", (base,), {"VALIDATORS": dict(base.VALIDATORS, minimum=loud_minimum)})
    out["sub-both"] = type("SubB", (base,), {"VALIDATORS": dict(base.VALIDATORS, type=loud_type),
                                             "TYPE_CHECKER": base.TYPE_CHECKER.redefine("string", lambda c, i: True)})
    out["extended"] = J.validators.extend(base, {"minimum": loud_minimum})
    return out


K_SCHEMA = {"properties": {"m": {"minimum": 5}, "t": {"type": "integer"}, "s": {"type": "string"}}}
K_INST = {"m": 3, "t": "x", "s": 12}
K_EXPECT = {
    "base": sorted(["3 is less than the minimum of 5", "'x' is not of type 'integer'", "12 is not of type 'string'"]),
    "sub-validators": sorted(["sub-minimum 5", "'x' is not of type 'integer'", "12 is not of type 'string'"]),
    "sub-both": sorted(["3 is less than the minimum of 5", "sub-type", "sub-type"]),
    "extended": sorted(["sub-minimum 5", "'x' is not of type 'integer'", "12 is not of type 'string'"]),
}
K_ORDERS = [("base", "sub-validators"), ("sub-validators", "base"), ("base", "sub-both"), ("sub-both", "base"),
            ("base", "extended", "sub-validators"), ("extended", "base"), ("sub-validators", "sub-both", "base"),
            ("base", "sub-validators", "base")]


def k_run(d, order, consumption):
    """Fresh package; validators of the classes in `order`, constructed and started in that order; consumed
    sequentially or one error at a time in turn."""
    with _Warm():
        J = fresh_package()
        classes = k_classes(J, d)
        vals = [classes[name](copy.deepcopy(K_SCHEMA)) for name in order]
        got = [[] for _ in order]
        if consumption == "sequential":
            for i, v in enumerate(vals):
                got[i] = [e.message for e in v.iter_errors(copy.deepcopy(K_INST))]
        else:
            its = [v.iter_errors(copy.deepcopy(K_INST)) for v in vals]
            live = list(range(len(its)))
            while live:
                for i in list(live):
                    e = next(its[i], None)
                    if e is None:
                        live.remove(i)
                    else:
                        got[i].append(e.message)
    problems = []
    for i, name in enumerate(order):
        if sorted(got[i]) != K_EXPECT[name]:
            problems.append({"consumer": i, "class": name, "got": sorted(got[i]), "expected": K_EXPECT[name]})
    return problems


# ------------------------------------------------------------------ part S: validators that are handed the SAME objects
# Two validators (own resolvers) may be given the same schema object and the same instance object: what one of
# them does with those objects is invisible to the other.
def s_configs(d):
    import collections
    enum_schema = {"properties": {"p": {"enum": [["k", 3], {"a": [1, 2]}]}}}
    props = {"properties": {"size": {"type": "integer"}, "tags": {"type": "array", "minItems": 1}, "name": {"type": "string"}}}
    closed = {"additionalProperties": False, "properties": {"name": {}}, "minProperties": 1, "maxProperties": 1}
    return [
        ("same-schema-object", [enum_schema, enum_schema], lambda: {"p": ["k", 2]}),
        ("same-schema-object-valid", [enum_schema, enum_schema], lambda: {"p": {"a": [1, 2]}}),
        ("defaulting-instance", [props, closed], lambda: collections.defaultdict(list, {"name": 5})),
        ("defaulting-instance-2", [closed, props, closed], lambda: collections.defaultdict(dict, {"name": "x"})),
    ]


def s_alone(d, S, make):
    x = make()
    plain = dict(x)
    return [(e.validator, e.message, tuple(e.absolute_path)) for e in _e1.CLS[d](copy.deepcopy(S)).iter_errors(plain)]


def s_run_order(d, ci, order):
    name, schemas_, make = s_configs(d)[ci]
    x = make()
    vals = [_e1.CLS[d](S) for S in schemas_]
    its = [v.iter_errors(x) for v in vals]
    got = [[] for _ in vals]
    for i in order:
        try:
            e = next(its[i], None)
        except Exception as ex:
            got[i].append(("EXC", type(ex).__name__, ()))
            continue
        if e is not None:
            got[i].append((e.validator, e.message, tuple(e.absolute_path)))
    problems = []
    for i, S in enumerate(schemas_):
        want = s_alone(d, S, make)
        if got[i] != want:
            problems.append({"validator": i, "got": got[i], "alone": want})
    return problems


def s_bodies(d, ci):
    name, schemas_, make = s_configs(d)[ci]
    x = make()
    vals = [_e1.CLS[d](S) for S in schemas_]
    return [(lambda v=v: [(e.validator, e.message, tuple(e.absolute_path)) for e in v.iter_errors(x)]) for v in vals]


def s_check(d, ci):
    name, schemas_, make = s_configs(d)[ci]
    want = [s_alone(d, S, make) for S in schemas_]

    def check(results):
        for i, r in enumerate(results):
            if r != want[i]:
                return {"thread": i, "got": r, "alone": want[i]}
        return None
    return check


# ------------------------------------------------------------------ part D: cold start
# The threads themselves construct resolver and validator, and the package is imported afresh for every
# schedule, so that every lazily built module-level table is built *during* the explored schedule.
META_REF = {3: "http://json-schema.org/draft-03/schema#/properties/minLength",
            4: "http://json-schema.org/draft-04/schema#/definitions/positiveInteger",
            6: "http://json-schema.org/draft-06/schema#/definitions/nonNegativeInteger",
            7: "http://json-schema.org/draft-07/schema#/definitions/nonNegativeInteger"}


def _pkg_modules():
    return [k for k in sys.modules if k == "jsonschema" or k.startswith("jsonschema.")]


def fresh_package():
    """Import the package under test afresh: new module objects, module-level state as in a new process."""
    for k in _pkg_modules():
        del sys.modules[k]
    return importlib.import_module("jsonschema")


class _Warm(object):
    """Keeps the long-lived (warm) package modules and puts them back afterwards."""

    def __enter__(self):
        self.saved = {k: sys.modules[k] for k in _pkg_modules()}
        return self

    def __exit__(self, *a):
        for k in _pkg_modules():
            del sys.modules[k]
        sys.modules.update(self.saved)


def cold_schema(d, k, mode):
    var = VARIANTS[k]
    props = {"p": {"$ref": "#/definitions/a"}, "m": {"$ref": META_REF[d]}}
    if mode == "resolver":
        props["r"] = {"$ref": URL + "#/d"}
    return {"definitions": {"a": var["T"]}, "properties": props}


def cold_instance(k):
    var = VARIANTS[k]
    return {"p": var["inst"][1] if k != 1 else 1, "m": -1, "r": var["inst"][0]}


_cold_expected = {}


def cold_expected(d, k, mode):
    key = (d, k, mode)
    if key not in _cold_expected:
        var = VARIANTS[k]
        S = cold_schema(d, k, mode)
        w = refmodel.World(d, S, {URL: var["R"], META_URL[d]: _e1.CLS[d].META_SCHEMA})
        I = refmodel.inline(w, S)
        errs = sorted((e.validator, e.message, tuple(e.absolute_path)) for e in _e1.CLS[d](I).iter_errors(cold_instance(k)))
        _cold_expected[key] = errs
    return _cold_expected[key]


def cold_bodies(d, consumers):
    """consumers: ((variant, mode), ...); mode in resolver / plain / validate / check_schema."""
    J = fresh_package()
    cls = getattr(J, "Draft%dValidator" % d)

    def refuse(uri):
        raise RuntimeError("retrieval attempted for %s" % (uri,))

    def mk(k, mode):
        var = VARIANTS[k]
        S = cold_schema(d, k, mode)
        inst = cold_instance(k)
        doc = copy.deepcopy(var["R"])

        def body():
            if mode == "resolver":
                r = J.RefResolver.from_schema(S, id_of=cls.ID_OF, store={URL: doc},
                                              handlers={"http": refuse, "https": refuse})
                v = cls(S, resolver=r)
                return sorted((e.validator, e.message, tuple(e.absolute_path)) for e in v.iter_errors(inst))
            if mode == "plain":
                return sorted((e.validator, e.message, tuple(e.absolute_path)) for e in cls(S).iter_errors(inst))
            if mode == "validate":
                try:
                    J.validate(inst, S, cls=cls)
                except J.ValidationError as e:
                    return [("raised", e.validator, e.message, tuple(e.absolute_path))]
                return []
            cls.check_schema(S)
            return ["accepted"]
        return body
    return [mk(k, mode) for k, mode in consumers]


def cold_check(d, consumers):
    def check(results):
        for i, (k, mode) in enumerate(consumers):
            res = results[i]
            if mode == "check_schema":
                ok = res == ["accepted"]
                exp = ["accepted"]
            elif mode == "validate":
                exp = cold_expected(d, k, "validate")
                ok = (isinstance(res, list) and len(res) == 1 and res[0][0] == "raised" and tuple(res[0][1:]) in exp) \
                    if exp else res == []
            else:
                exp = cold_expected(d, k, mode)
                ok = res == exp
            if not ok:
                return {"thread": i, "variant": k, "mode": mode, "got": res, "expected": exp}
        return None
    return check


def cold_configs(tier):
    # (consumers, granularity, preemption bound)
    R, P, V, CSM = "resolver", "plain", "validate", "check_schema"
    if tier == "quick":
        return [(((0, R), (1, R)), "line", 1), (((0, V), (1, P)), "call", 1), (((0, P), (1, CSM), (2, R)), "call", 1)]
    return [(((0, R), (1, R)), "line", 1), (((0, R), (1, R)), "call", 2), (((0, V), (1, P)), "line", 1),
            (((0, V), (1, V)), "call", 2), (((0, P), (1, CSM), (2, R)), "call", 1), (((1, CSM), (0, R)), "line", 1),
            (((2, P), (0, V), (1, R)), "call", 1)]


def plan(ctx):
    units = []
    sizes = {}
    A_LEN["n"] = 2 if ctx.tier == "quick" else 4
    for d in _e1.DRAFTS:
        for k in range(len(VARIANTS)):
            expected(d, k)
        na = 0
        for ci, (ks, progs) in enumerate(part_a_configs(d, ctx.tier)):
            units.append(("A", d, ci))
            na += 1
        sizes["partA_configs_d%d" % d] = na
    drafts_b = (7, 3) if ctx.tier == "quick" else _e1.DRAFTS
    for d in drafts_b:
        for bi, (ks, gran, bound, nlen) in enumerate(part_b_configs(ctx.tier)):
            if ctx.tier == "quick" and d == 3 and bi > 0:
                continue        # draft 3 (extends / disallow): two threads, call granularity, bound 2 only
            # root run to learn the number of scheduling points, then shard by first deviation
            s = threads.Sched(bodies_for(d, ks, nlen), [], PKG, gran)
            _, pts = s.run()
            n = len(pts)
            sizes["partB_points_d%d_%s_%s" % (d, "+".join(map(str, ks)), gran)] = n
            chunk = max(1, n // (48 if bound >= 2 else 16))
            for lo in range(0, n, chunk):
                units.append(("B", d, bi, lo, min(n, lo + chunk)))
    for ci, (drafts, gran, bound) in enumerate(cs_configs(ctx.tier)):
        sc = threads.Sched(cs_bodies(drafts), [], PKG, gran)
        _, pts = sc.run()
        n = len(pts)
        sizes["checkschema_points_%s_%s" % ("+".join(map(str, drafts)), gran)] = n
        chunk = max(1, n // 48)
        for lo in range(0, n, chunk):
            units.append(("CS", ci, lo, min(n, lo + chunk)))
    for d in _e1.DRAFTS:
        m_expected(d, "stock")          # before any customised copy exists in this process
    for d in _e1.DRAFTS:
        for k in range(len(M_CUSTOM)):
            m_expected(d, k)
        for ci in range(len(M_COMBOS)):
            units.append(("M", d, ci))
    sizes["partM_combinations"] = len(M_COMBOS)
    for d in _e1.DRAFTS:
        for oi in range(len(K_ORDERS)):
            units.append(("K", d, oi))
    sizes["partK_orders"] = len(K_ORDERS)
    for d in _e1.DRAFTS:
        for ci in range(len(s_configs(d))):
            units.append(("S", d, ci, "steps"))
            if ci < 2:
                units.append(("S", d, ci, "threads"))
    drafts_d = (7, 4) if ctx.tier == "quick" else _e1.DRAFTS
    with _Warm():
        for d in drafts_d:
            for di, (consumers, gran, bound) in enumerate(cold_configs(ctx.tier)):
                if ctx.tier == "quick" and d != 7 and di > 0:
                    continue
                for k, mode in consumers:
                    cold_expected(d, k, mode)
                sc = threads.Sched(cold_bodies(d, consumers), [], PKG, gran)
                _, pts = sc.run()
                n = len(pts)
                sizes["cold_points_d%d_%s_%s" % (d, "+".join(m for _, m in consumers), gran)] = n
                chunk = max(1, n // (48 if bound >= 2 else 32))
                for lo in range(0, n, chunk):
                    units.append(("D", d, di, lo, min(n, lo + chunk)))
    return {
        "units": units,
        "rule": ("part A: validators of 3 variants that share the base URI '', the reference strings, the remote "
                 "URL (different stores), the regex and the format name (different checkers); for every "
                 "combination of consumer programs (exhaust / take k then close) EVERY interleaving of their "
                 "next()/close() steps on fresh validators; part B: whole validations in 2-3 real threads under a "
                 "baton scheduler, every schedule with <= bound preemptions at call (and line) granularity, and "
                 "check_schema of different draft classes in concurrent threads (the metaschemas use $ref); part M: "
                 "customised copies of the bundled metaschema that keep its id (same pointer, other meaning) next to "
                 "each other and to a validator of the bundled metaschema, constructed and consumed in every order "
                 "of 6 combinations, sequentially and alternating; part K: validators of a draft class, of Python "
                 "subclasses overriding VALIDATORS / TYPE_CHECKER and of an extend()ed class, constructed and consumed "
                 "in 8 orders, sequentially and alternating, each run on a freshly imported package; part S: two or three "
                 "validators handed the SAME schema object / the SAME instance object (a plain dict with containers, a "
                 "defaultdict), every interleaving of their next() steps and every thread schedule with <= 1 "
                 "preemption, each must report what it reports alone; part D (cold "
                 "start): the package is imported afresh for every schedule and the threads themselves construct "
                 "resolver and validator (explicit resolver / implicit / module-level validate / check_schema), so "
                 "lazily built module-level tables are built under every explored schedule; each "
                 "consumer must see exactly the errors of the reference-free equivalent schema and leave its "
                 "resolver's scope untouched; distinct schedules by construction; distinct_nontrivial = schedules "
                 "with at least one switch between consumers"),
        "bounds": dict(sizes, tier=ctx.tier),
        "assumptions": ["preemption only at Python call/line boundaries inside the package; C-level container "
                        "operations are atomic under the GIL",
                        "expected errors come from the inlined schema evaluated by the implementation"],
    }


def run_unit(unit, ctx):
    A_LEN["n"] = 2 if ctx.tier == "quick" else 4
    viol, samples, outcomes = [], [], {}
    if unit[0] == "A":
        _, d, ci = unit
        ks, progs = list(part_a_configs(d, ctx.tier))[ci]
        counts = [steps_of(p) for p in progs]
        n = steps = nt = 0
        for order in interleavings(counts):
            n += 1
            steps += len(order)
            switches = sum(1 for a, b in zip(order, order[1:]) if a != b)
            if switches:
                nt += 1
            probs = run_interleaving(d, ks, progs, order)
            key = "agree" if not probs else "DISAGREE"
            outcomes[key] = outcomes.get(key, 0) + 1
            if probs:
                viol.append({"signature": "C18|interleaving|%d-iterators%s" % (
                len(ks), "|store-object-passed-on" if any(isinstance(k, tuple) for k in ks) else ""), "size": len(order),
                             "case": {"part": "A", "draft": d, "variants": [list(k) if isinstance(k, tuple) else k for k in ks],
                                      "programs": [list(p) for p in progs],
                                      "order": list(order), "elements": A_LEN["n"]}, "detail": probs[:2]})
            if n == 3:
                samples.append({"part": "A", "draft": d, "variants": [list(k) if isinstance(k, tuple) else k for k in ks],
                                "programs": [list(p) for p in progs],
                                "order": list(order)})
        return {"evaluations": n, "nontrivial": nt, "violations": viol, "samples": samples, "outcomes": outcomes,
                "counters": {"states": n, "transitions": steps, "traces_validated_against_impl": n,
                             "partA_interleavings": n}}
    if unit[0] == "CS":
        _, ci, lo, hi = unit
        drafts, gran, bound = cs_configs(ctx.tier)[ci]
        r = threads.explore(lambda: cs_bodies(drafts), cs_check(drafts), PKG, gran, bound, (lo, hi))
        for choices, bad in r["problems"]:
            viol.append({"signature": "C18|threads-check_schema|%s" % gran, "size": len(choices),
                         "case": {"part": "CS", "drafts": list(drafts), "granularity": gran, "choices": choices},
                         "detail": bad})
        outcomes = {"cs-preemptions=%d" % k: v for k, v in r["by_preemptions"].items()}
        nt = sum(v for k, v in r["by_preemptions"].items() if k > 0)
        return {"evaluations": r["schedules"], "nontrivial": nt, "violations": viol, "samples": samples,
                "outcomes": outcomes,
                "counters": {"states": r["schedules"], "transitions": r["steps"],
                             "traces_validated_against_impl": r["schedules"], "checkschema_schedules": r["schedules"]}}
    if unit[0] == "S":
        _, d, ci, how = unit
        name = s_configs(d)[ci][0]
        nv = len(s_configs(d)[ci][1])
        if how == "steps":
            n = 0
            counts = [len(s_alone(d, S, s_configs(d)[ci][2])) + 1 for S in s_configs(d)[ci][1]]
            for order in interleavings(counts):
                n += 1
                probs = s_run_order(d, ci, order)
                key = "shared-objects-agree" if not probs else "SHARED-OBJECTS-DISAGREE"
                outcomes[key] = outcomes.get(key, 0) + 1
                if probs:
                    viol.append({"signature": "C18|same-objects|%s|steps" % name, "size": len(order),
                                 "case": {"part": "S", "draft": d, "config": ci, "order": list(order)}, "detail": probs[:2]})
            return {"evaluations": n, "nontrivial": n, "violations": viol, "samples": samples, "outcomes": outcomes,
                    "counters": {"states": n, "transitions": n * nv, "traces_validated_against_impl": n, "partS_orders": n}}
        r = threads.explore(lambda: s_bodies(d, ci), s_check(d, ci), PKG, "call", 1)
        for choices, bad in r["problems"]:
            viol.append({"signature": "C18|same-objects|%s|threads" % name, "size": len(choices),
                         "case": {"part": "S", "draft": d, "config": ci, "choices": choices}, "detail": bad})
        outcomes = {"shared-preemptions=%d" % k: v for k, v in r["by_preemptions"].items()}
        return {"evaluations": r["schedules"], "nontrivial": sum(v for k, v in r["by_preemptions"].items() if k > 0),
                "violations": viol, "samples": samples, "outcomes": outcomes,
                "counters": {"states": r["schedules"], "transitions": r["steps"],
                             "traces_validated_against_impl": r["schedules"], "partS_schedules": r["schedules"]}}
    if unit[0] == "K":
        _, d, oi = unit
        n = 0
        for consumption in ("sequential", "alternating"):
            n += 1
            probs = k_run(d, K_ORDERS[oi], consumption)
            key = "related-classes-agree" if not probs else "RELATED-CLASSES-DISAGREE"
            outcomes[key] = outcomes.get(key, 0) + 1
            if probs:
                viol.append({"signature": "C18|related-classes|%s-affected" % probs[0]["class"], "size": len(K_ORDERS[oi]),
                             "case": {"part": "K", "draft": d, "order": list(K_ORDERS[oi]), "consumption": consumption},
                             "detail": probs[:2]})
        return {"evaluations": n, "nontrivial": n, "violations": viol, "samples": samples, "outcomes": outcomes,
                "counters": {"states": n, "transitions": n * len(K_ORDERS[oi]), "traces_validated_against_impl": n,
                             "partK_runs": n}}
    if unit[0] == "M":
        _, d, ci = unit
        combo = M_COMBOS[ci]
        n = 0
        for kind in ("sequential", "alternating"):
            n += 1
            probs = m_run(d, combo, kind)
            key = "meta-id-agree" if not probs else "META-ID-DISAGREE"
            outcomes[key] = outcomes.get(key, 0) + 1
            if probs:
                viol.append({"signature": "C18|same-id-as-a-metaschema|%s" % ("stock-affected" if any(
                    p["which"] == "stock" for p in probs) else "customised-copy-affected"), "size": len(combo),
                             "case": {"part": "M", "draft": d, "combo": list(combo), "consumption": kind},
                             "detail": probs[:2]})
        return {"evaluations": n, "nontrivial": n, "violations": viol, "samples": samples, "outcomes": outcomes,
                "counters": {"states": n, "transitions": n * len(combo), "traces_validated_against_impl": n,
                             "partM_runs": n}}
    if unit[0] == "D":
        _, d, di, lo, hi = unit
        consumers, gran, bound = cold_configs(ctx.tier)[di]
        with _Warm():
            r = threads.explore(lambda: cold_bodies(d, consumers), cold_check(d, consumers), PKG, gran, bound, (lo, hi))
        for choices, bad in r["problems"]:
            viol.append({"signature": "C18|threads-cold-start|%s|%s" % (gran, "+".join(m for _, m in consumers)),
                         "size": len(choices),
                         "case": {"part": "D", "draft": d, "consumers": [list(c) for c in consumers],
                                  "granularity": gran, "choices": choices}, "detail": bad})
        outcomes = {"cold-preemptions=%d" % k: v for k, v in r["by_preemptions"].items()}
        nt = sum(v for k, v in r["by_preemptions"].items() if k > 0)
        if lo == 0:
            samples.append({"part": "D", "draft": d, "consumers": [list(c) for c in consumers], "granularity": gran,
                            "bound": bound, "scheduling_points_in_deviation_free_run": r["points_root"]})
        return {"evaluations": r["schedules"], "nontrivial": nt, "violations": viol, "samples": samples,
                "outcomes": outcomes,
                "counters": {"states": r["schedules"], "transitions": r["steps"],
                             "traces_validated_against_impl": r["schedules"], "coldstart_schedules": r["schedules"]}}
    _, d, bi, lo, hi = unit
    ks, gran, bound, nlen = part_b_configs(ctx.tier)[bi]
    r = threads.explore(lambda: bodies_for(d, ks, nlen), check_results(d, ks, nlen), PKG, gran, bound, (lo, hi))
    for choices, bad in r["problems"]:
        viol.append({"signature": "C18|threads|%s|%d-threads" % (gran, len(ks)), "size": len(choices),
                     "case": {"part": "B", "draft": d, "variants": list(ks), "granularity": gran, "choices": choices,
                              "elements": nlen},
                     "detail": bad})
    outcomes = {"preemptions=%d" % k: v for k, v in r["by_preemptions"].items()}
    nt = sum(v for k, v in r["by_preemptions"].items() if k > 0)
    if lo == 0:
        samples.append({"part": "B", "draft": d, "variants": list(ks), "granularity": gran, "bound": bound,
                        "scheduling_points_in_deviation_free_run": r["points_root"]})
    return {"evaluations": r["schedules"], "nontrivial": nt, "violations": viol, "samples": samples,
            "outcomes": outcomes,
            "counters": {"states": r["schedules"], "transitions": r["steps"],
                         "traces_validated_against_impl": r["schedules"], "partB_schedules": r["schedules"]}}


def replay(case, ctx):
    if case["part"] == "CS":
        drafts = tuple(case["drafts"])
        sc = threads.Sched(cs_bodies(drafts), case["choices"], PKG, case["granularity"])
        results, points = sc.run()
        bad = cs_check(drafts)(results)
        return {"reproduced": bad is not None, "problem": bad}
    if case["part"] == "S":
        if "order" in case:
            probs = s_run_order(case["draft"], case["config"], case["order"])
            return {"reproduced": bool(probs), "problems": probs[:2]}
        sc = threads.Sched(s_bodies(case["draft"], case["config"]), case["choices"], PKG, "call")
        results, points = sc.run()
        bad = s_check(case["draft"], case["config"])(results)
        return {"reproduced": bad is not None, "problem": bad}
    if case["part"] == "K":
        probs = k_run(case["draft"], tuple(case["order"]), case["consumption"])
        return {"reproduced": bool(probs), "problems": probs[:2]}
    if case["part"] == "M":
        for dd in _e1.DRAFTS:
            m_expected(dd, "stock")     # as in plan(): the bundled metaschemas are used before any copy exists
        probs = m_run(case["draft"], tuple(case["combo"]), case["consumption"])
        return {"reproduced": bool(probs), "problems": probs[:2]}
    if case["part"] == "D":
        d = case["draft"]
        consumers = tuple((k, m) for k, m in case["consumers"])
        outs = []
        with _Warm():
            for _ in range(2):
                sc = threads.Sched(cold_bodies(d, consumers), case["choices"], PKG, case["granularity"])
                results, points = sc.run()
                outs.append((repr(results), len(points)))
        bad = cold_check(d, consumers)(results)
        return {"reproduced": bad is not None, "problem": bad, "identical_replays": outs[0] == outs[1]}
    d, ks = case["draft"], tuple(tuple(k) if isinstance(k, list) else k for k in case["variants"])
    if case["part"] == "A":
        A_LEN["n"] = case.get("elements", A_LEN["n"])
        probs = run_interleaving(d, ks, [tuple(p) for p in case["programs"]], case["order"])
        return {"reproduced": bool(probs), "problems": probs}
    outs = []
    for _ in range(2):      # the same schedule twice: observations must be identical
        s = threads.Sched(bodies_for(d, ks, case.get("elements", 2)), case["choices"], PKG, case["granularity"])
        results, points = s.run()
        outs.append((repr(results), len(points)))
    bad = check_results(d, ks, case.get("elements", 2))(results)
    return {"reproduced": bad is not None, "problem": bad, "identical_replays": outs[0] == outs[1]}
