"""C10 — unknown, annotation and other-draft keywords never affect validation.

Base schemas x every subschema position x every keyword name outside the
draft's vocabulary (from a vocabulary table written from the specifications)
x values (hostile values and values that would fail if the keyword were
active) x instances: the reported errors are unchanged.  Also: any keyword
next to a `$ref`, and id/$id of the other spelling.

Families of base schemas (unit kinds):
  insert         the grammar G(draft): singles, sibling groups, nested applicators
  empty          the *empty-subschema closure* of G: every grammar schema with `{}` substituted at every
                 subschema position (one at a time, and all at once); keywords go INTO the empty subschemas
                 and next to them (into the subschema that holds them)
  world          multi-document reference worlds (a root and a document reached through `$ref`, held in the
                 store or served by a handler; pointer, plain-name, whole-document, chained and unresolvable
                 references): keywords go into every document and every `$ref` target; the values include
                 schema-looking objects carrying id / $id / $ref / definitions, and `$schema` (alone, together
                 with each foreign keyword, and already declared by the targets)
  ref-sibling    any keyword of any draft next to a `$ref` (5 small bases; world-ref-sibling: every `$ref` of
                 the worlds, in the root and in the referenced document)
  other-id       the other drafts' spelling of the identifier above a relative reference
  retrieved-doc  foreign keywords in a document that a handler serves
  cli            the command-line route: jsonschema.cli.run in-process on files of a private scratch directory,
                 `--base-uri`, `-V <class>` / `$schema`, relative references to local `file:` documents
  class-history  pre-histories on the class level: other classes are derived from the observed class (create
                 from its VALIDATORS object / its items, extend) or from the caller's dict, and their tables
                 then grow in place by implementations of every keyword foreign to the observed draft
"""
import copy
import io
import json
import os
import shutil
import tempfile

from jsonschema import RefResolver, exceptions
from jsonschema import validators as _jsv

from mc.props import _e1
from mc.ref import spec

ID = "C10"
LEVEL = "exploration"

# ---- vocabularies, written from the four specifications ---------------------
V3 = {"type", "properties", "patternProperties", "additionalProperties", "items", "additionalItems", "required",
      "dependencies", "minimum", "maximum", "exclusiveMinimum", "exclusiveMaximum", "minItems", "maxItems",
      "uniqueItems", "pattern", "minLength", "maxLength", "enum", "default", "title", "description", "format",
      "divisibleBy", "disallow", "extends", "id", "$ref", "$schema"}
V4 = (V3 - {"divisibleBy", "disallow", "extends"}) | {"multipleOf", "maxProperties", "minProperties", "allOf",
                                                      "anyOf", "oneOf", "not", "definitions"}
V6 = (V4 - {"id"}) | {"$id", "const", "contains", "propertyNames", "examples"}
V7 = V6 | {"if", "then", "else", "$comment", "readOnly", "writeOnly", "contentEncoding", "contentMediaType"}
VOCAB = {3: V3, 4: V4, 6: V6, 7: V7}
LATER = {"dependentRequired", "dependentSchemas", "unevaluatedProperties", "unevaluatedItems", "minContains",
         "maxContains", "$anchor", "$defs", "$recursiveRef", "$recursiveAnchor", "prefixItems", "$dynamicRef",
         "$dynamicAnchor", "$vocabulary", "deprecated"}
ARBITRARY = {"foo", "", "x-y", "Type", "TYPE", "type ", "items2", "$foo", "requires", "optional", "maxDecimal"}
# `$schema` names the dialect for validator_for / validate (property C20); for a validator class that the
# caller has chosen it is one more keyword without a validation function
ANNOTATIONS = {3: {"title", "description", "default", "$schema"},
               4: {"title", "description", "default", "definitions", "$schema"},
               6: {"title", "description", "default", "definitions", "examples", "$schema"},
               7: {"title", "description", "default", "definitions", "examples", "$comment", "readOnly",
                   "writeOnly", "contentEncoding", "contentMediaType", "$schema"}}
ALL = V3 | V4 | V6 | V7 | LATER | ARBITRARY

# the ids of the four registered metaschemas (from the specifications), with and without the empty fragment
META = {3: "http://json-schema.org/draft-03/schema", 4: "http://json-schema.org/draft-04/schema",
        6: "http://json-schema.org/draft-06/schema", 7: "http://json-schema.org/draft-07/schema"}
SCHEMA_IDS = [(m, META[m] + frag) for m in (3, 4, 6, 7) for frag in ("#", "")]

GENERIC = [None, True, False, 0, 1, "a", "integer", [], [{}], ["a"], [False], {}, {"a": {}}, {"type": "string"},
           {"not": {}}, [{"type": "string"}]]
# values that would make (nearly) every instance fail if the keyword were active
HOT = {
    "allOf": [[{"type": "null"}, {"type": "string"}]], "anyOf": [[{"enum": ["zz"]}]], "oneOf": [[{}, {}]],
    "not": [{}], "const": ["zz"], "contains": [{"enum": ["zz"]}, False], "propertyNames": [{"maxLength": 0}, False],
    "extends": [{"enum": ["zz"]}, [{"enum": ["zz"]}]], "disallow": ["any", ["any"]], "divisibleBy": [1000000.5],
    "multipleOf": [1000000.5], "minProperties": [99], "maxProperties": [0], "required": [["zz"]],
    "dependentRequired": [{"a": ["zz"]}], "dependentSchemas": [{"a": False}], "unevaluatedProperties": [False],
    "unevaluatedItems": [False], "prefixItems": [[False]], "minContains": [99], "maxContains": [0],
    "if": [{}], "then": [False, {"enum": ["zz"]}], "else": [False, {"enum": ["zz"]}], "examples": [["zz"]],
    "definitions": [{"a": False}, {"a": {"enum": ["zz"]}}], "$defs": [{"a": False}],
    "id": ["http://other.invalid/x/", "sub/"], "$id": ["http://other.invalid/x/", "sub/"],
    "default": ["zz", {"a": 1}], "$comment": ["zz"], "readOnly": [True], "$anchor": ["a"], "$recursiveRef": ["#"],
    "$schema": [u for _, u in SCHEMA_IDS] + ["http://json-schema.org/draft/2019-09/schema", "urn:no-such-dialect"],
}
MULTI = {  # several foreign keywords inserted together (they would interact if active)
    7: [], 6: [{"if": {}, "then": {"enum": ["zz"]}}, {"if": {"enum": ["zz"]}, "else": False}],
    4: [{"if": {}, "then": {"enum": ["zz"]}}, {"contains": {"enum": ["zz"]}, "minContains": 1}],
    3: [{"if": {}, "then": {"enum": ["zz"]}}, {"allOf": [{"enum": ["zz"]}], "not": {}}],
}


def dialect_multis(d):
    """`$schema` naming another registered draft together with *all* keywords which that draft has and draft d
    has not, each with a value that fails if the keyword is active (the identifier keyword is left to the
    other-id cases).  One combination per other draft."""
    out = []
    for m in (3, 4, 6, 7):
        names = sorted(k for k in VOCAB[m] - VOCAB[d] if k in HOT and k not in ("id", "$id"))
        if m != d and names:
            extra = {"$schema": META[m] + "#"}
            extra.update((k, HOT[k][0]) for k in names)
            out.append((m, extra))
    return out


U2 = [None, True, 0, 1, 1.5, "", "a", "ab", [], [0], [0, "a"], {}, {"a": 0}, {"a": "a", "b": 0}, {"a": [0]},
      {"ba": 0, "ab": "a"}]
# instances of the empty-subschema family: an array longer than any tuple of the grammar, objects with a
# property next to the named ones, so that "the empty schema accepts" / "is treated as false" / "is treated as
# absent" give different errors
UE = [None, 1, "a", [], [0], [0, "a"], [0, "a", None], {}, {"a": 0}, {"a": "a", "b": 0}, {"ba": 0, "ab": "a"},
      {"a": [0], "c": 0}]

MSG_FREE = ("not", "oneOf", "disallow", "type", "dependencies", "extends")
MAPKW = ("properties", "patternProperties", "dependencies", "definitions")


def foreign_names(d):
    """Names to insert: everything outside the draft's vocabulary, plus the draft's annotations."""
    names = (ALL - VOCAB[d]) | ANNOTATIONS[d]
    names -= {"$ref"}
    return sorted(names)


def dedupe(vals):
    seen, out = set(), []
    for v in vals:
        t = json.dumps(v)
        if t not in seen:
            seen.add(t)
            out.append(v)
    return out


def values_for(name, tier):
    vals = list(HOT.get(name, []))
    if tier == "would-fail":
        return vals or GENERIC[1:2]
    if tier == "would-fail-and-one":
        return dedupe(vals + GENERIC[1:2])
    vals += GENERIC if tier == "thorough" else GENERIC[1::5]
    return dedupe(vals)


def ident(e):
    msg = e.message if e.validator not in MSG_FREE else None
    return (e.validator, msg, tuple(e.path), tuple(e.schema_path),
            tuple(sorted((ident(c) for c in e.context), key=repr)))


def positions(S, path=()):
    """Every subschema position (paths to dict-valued schema nodes)."""
    if isinstance(S, dict):
        yield path
        for k, v in S.items():
            if k in MAPKW:
                if isinstance(v, dict):
                    for kk, vv in v.items():
                        yield from positions(vv, path + (k, kk))
            elif k in ("items", "additionalItems", "additionalProperties", "not", "contains", "propertyNames",
                       "if", "then", "else", "extends", "allOf", "anyOf", "oneOf", "type", "disallow"):
                if isinstance(v, dict):
                    yield from positions(v, path + (k,))
                elif isinstance(v, list):
                    for i, vv in enumerate(v):
                        yield from positions(vv, path + (k, i))


def holder(pos):
    """(keyword that holds the subschema at `pos`, position of the subschema that contains that keyword)."""
    i, kw, parent = 0, None, ()
    while i < len(pos):
        kw, parent = pos[i], pos[:i]
        i += 2 if i + 1 < len(pos) and (kw in MAPKW or isinstance(pos[i + 1], int)) else 1
    return kw, parent


def build(d, S, store=None):
    if store is not None:
        return _e1.CLS[d](S, resolver=RefResolver.from_schema(S, id_of=_e1.CLS[d].ID_OF, store=copy.deepcopy(store)))
    return _e1.CLS[d](S)


def observe(d, S, x, store=None, v=None):
    try:
        if v is None:
            v = build(d, S, store)
        return sorted((ident(e) for e in v.iter_errors(x)), key=repr)
    except exceptions.RefResolutionError as e:
        return "RefResolutionError"
    except exceptions.UnknownType:
        return "UnknownType"
    except Exception as e:
        return "EXC " + type(e).__name__


def observe_seq(d, S, x, v=None):
    """The errors in the order in which iter_errors yields them (validate() raises the first)."""
    try:
        if v is None:
            v = build(d, S)
        return [ident(e) for e in v.iter_errors(x)]
    except Exception as e:
        return "EXC " + type(e).__name__


def observe_raised(d, S, x, via):
    """The error that Validator.validate() / jsonschema.validate() raises (None: none)."""
    import jsonschema
    try:
        if via == "validate":
            _e1.CLS[d](S).validate(x)
        else:
            jsonschema.validate(instance=x, schema=S, cls=_e1.CLS[d])
        return None
    except exceptions.ValidationError as e:
        return ident(e)
    except Exception as e:
        return "EXC " + type(e).__name__


UNKNOWN_60 = dict(("x-%d" % i, [True, "a", {"type": "string"}, 0][i % 4]) for i in range(60))
UNKNOWN_40 = dict(list(UNKNOWN_60.items())[:40])


def insert(S, pos, extra):
    S2 = copy.deepcopy(S)
    node = S2
    for p in pos:
        node = node[p]
    for k in extra:
        if k in node:
            return None
    if "$ref" in node:
        return None
    # the draft's own keywords consult some sibling names; those are not "foreign" at that place
    node.update(copy.deepcopy(extra))
    return S2


def consulted(d, S, pos, name):
    """True iff `name` at this position is read by one of the draft's own keywords."""
    if d == 3 and name == "required" and len(pos) >= 2 and pos[-2] == "properties":
        return True
    return False


REF_BASES = [
    # (schema with a reference, store) — keywords are inserted next to the $ref
    lambda idk: ({"definitions": {"t": {"type": "integer"}}, "properties": {"a": {"$ref": "#/definitions/t"}}}, None),
    lambda idk: ({"definitions": {"t": {"type": "integer"}}, "items": [{"$ref": "#/definitions/t"}]}, None),
    lambda idk: ({"properties": {"v": {"type": "integer"}, "kids": {"items": {"$ref": ""}}}}, None),
    lambda idk: ({"properties": {"v": {"type": "integer"}, "kids": {"items": {"$ref": "#"}}}}, None),
    lambda idk: ({idk: "http://h.invalid/root.json", "definitions": {"t": {"type": "string"}},
                  "properties": {"a": {"$ref": "other.json#/d"}, "b": {"$ref": "#/definitions/t"}}},
                 {"http://h.invalid/other.json": {"d": {"type": "integer"}}}),
]
UREF = [{"a": 0}, {"a": "a"}, {"a": "a", "b": 0}, [0], ["a"], {}, 1, {"kids": [{"v": "x"}, {"v": 1, "kids": [{}]}]}]

ID_BASES = [
    # a relative reference *beneath* the insertion point makes a base change visible
    lambda: ({"definitions": {"t": {"type": "integer"}},
              "properties": {"a": {"properties": {"b": {"$ref": "#/definitions/t"}}}}}, ("properties", "a")),
    lambda: ({"definitions": {"t": {"type": "integer"}},
              "items": {"items": {"$ref": "#/definitions/t"}}}, ("items",)),
]
UID = [{"a": {"b": 0}}, {"a": {"b": "x"}}, [[0]], [["x"]], {}]


# ---- the empty-subschema closure of the grammar -------------------------------------------------------------

def empty_closure(lst, exclude=()):
    """Every schema of `lst` that has an empty subschema, and every schema of `lst` with `{}` substituted for
    the subschema at one non-root position, and at all of them at once; without duplicates up to key order,
    and without the schemas of `exclude` (those are bases of the insert family)."""
    seen = set(json.dumps(s, sort_keys=True) for s in exclude)
    out = []
    for S in lst:
        if not isinstance(S, dict):
            continue
        cands = [S]
        ps = [p for p in positions(S) if p != () and _get(S, p) != {}]
        for p in ps:
            S2 = copy.deepcopy(S)
            _get(S2, p[:-1])[p[-1]] = {}
            cands.append(S2)
        if len(ps) > 1:
            S2 = copy.deepcopy(S)
            for p in ps:
                try:
                    _get(S2, p[:-1])[p[-1]] = {}
                except (KeyError, IndexError, TypeError):
                    pass            # lies beneath a subschema that is already emptied
            cands.append(S2)
        for S2 in cands:
            t = json.dumps(S2, sort_keys=True)
            if t not in seen and any(p != () and _get(S2, p) == {} for p in positions(S2)):
                seen.add(t)
                out.append(S2)
    return out


# ---- reference worlds -----------------------------------------------------------------------------------------

W_ROOT = "http://h.invalid/w/root.json"
W_OTHER = "http://h.invalid/w/other.json"
# the target of every reference: draft d's own keywords, chosen so that each other draft reads them differently
# (divisibleBy / multipleOf exist on one side only; exclusiveMinimum is a flag up to draft 4; if/then is draft 7)
TARGET = {
    3: {"type": "integer", "divisibleBy": 2},
    4: {"type": "integer", "multipleOf": 2, "minimum": 0, "exclusiveMinimum": True},
    6: {"type": "integer", "multipleOf": 2, "exclusiveMinimum": 0},
    7: {"type": "integer", "multipleOf": 2, "exclusiveMinimum": 0, "if": {"minimum": 3}, "then": {"maximum": 3}},
}
W_GHOST = "http://h.invalid/w/ghost.json"       # referenced, but no document is stored or served under it
W_PROPS = "abcek"
W_VALS = [0, 1, 4, "x", [0], {"q": 0}]
UW = [dict((p, v) for p in W_PROPS) for v in W_VALS] + [{"z": 0}, {"g": 0}]
# the schema-looking values accept strings and nothing else: a hijacked reference shows on any instance
UW_S = [UW[2], UW[3], UW[6], UW[7]]
# positions of the two documents at which keywords are inserted (all of them except the root of the root
# document are the target of a reference), and the nodes that hold a `$ref`
W_POS = [("root", ()), ("root", ("definitions", "t")), ("root", ("item",)),
         ("other", ()), ("other", ("definitions", "t")), ("other", ("item",))]
W_REFNODES = [("root", ("properties", p)) for p in W_PROPS + "zg"] + [("other", ("definitions", "w"))]


def make_world(d, with_ids, declared=None):
    """root:  a -> "#item" (plain name = top-level member), b -> "#/definitions/t", c -> other#item,
              e -> other#/definitions/w -> "#/definitions/t" (relative, inside other), k -> other (whole
              document), z -> "#nowhere", g -> ghost.json (a fragment / a document that does not exist:
              RefResolutionError before and after — unless an inserted keyword makes something answer to it)
    with_ids: the documents declare their URL with the draft's own id keyword and the root refers to
              `other.json` relatively; otherwise nothing is declared and the references are absolute.
    declared: the `$schema` value every reference target already carries (None: none)."""
    idk = "id" if d <= 4 else "$id"

    def t():
        s = {"$schema": declared} if declared else {}
        s.update(copy.deepcopy(TARGET[d]))
        return s
    o = "other.json" if with_ids else W_OTHER
    root = {idk: W_ROOT} if with_ids else {}
    root["properties"] = {"a": {"$ref": "#item"}, "b": {"$ref": "#/definitions/t"}, "c": {"$ref": o + "#item"},
                          "e": {"$ref": o + "#/definitions/w"}, "k": {"$ref": o}, "z": {"$ref": "#nowhere"},
                          "g": {"$ref": "ghost.json" if with_ids else W_GHOST}}
    root["definitions"] = {"t": t()}
    root["item"] = t()
    other = {idk: W_OTHER} if with_ids else {}
    other.update(t())
    other["item"] = t()
    other["definitions"] = {"t": t(), "w": {"$ref": "#/definitions/t"}}
    return {"root": root, "other": other}


# identifier values a schema-looking *value* of a foreign keyword carries: a plain name that is a top-level
# member of both documents, one that is nothing, a pointer that a reference uses, relative and absolute URLs of
# the documents, a URL with a plain-name fragment, and the URL that is referenced but names no document
W_IDVALS = ["#item", "#nowhere", "#/definitions/t", "other.json", W_OTHER, W_ROOT, W_OTHER + "#item", W_GHOST]


def schemaish_values():
    """Objects that look like subschemas (they accept strings where every real target accepts integers),
    bare / inside an object / inside an array — none of them is a subschema when it is the value of a keyword
    the draft does not define."""
    out = []
    for sp in ("$id", "id"):
        for idv in W_IDVALS:
            b = {sp: idv, "type": "string"}
            tag = "%s:%s" % (sp, idv)
            out += [(tag, b), (tag, {"a": b}), (tag, [b])]
    out += [("definitions", {"definitions": {"t": {"type": "string"}}, "item": {"type": "string"}}),
            ("definitions", {"t": {"type": "string"}, "item": {"type": "string"}}),
            ("$ref", {"$ref": "#nowhere"}), ("$ref", [{"$ref": W_OTHER + "#/nowhere"}]),
            ("$ref", {"$ref": "#/definitions/t", "type": "string"})]
    return out


ARBITRARY_CARRIERS = ("foo", "", "$foo")   # quick: the unknown names that carry the schema-looking values
NAME_VALUES = {"$anchor": ["item", "nowhere", "t"], "$dynamicAnchor": ["item"], "$recursiveAnchor": [True],
               "id": W_IDVALS, "$id": W_IDVALS}


# ---- scope worlds: one relative reference text under several base URIs -------------------------------------------

S_URL = "http://h.invalid/s/"
DOC_URLS = {"other": W_OTHER, "ax": S_URL + "a/x.json", "bx": S_URL + "b/x.json"}


def make_scopes(d, with_root_id):
    """Two subschemas establish two base URIs with the draft's own id keyword; under each, the same reference
    texts "x.json" and "x.json#/definitions/t" designate different documents (integers under a/, strings
    under b/).  "#/definitions/t" is used in the root (booleans) and inside a/x.json (integers).
    with_root_id: the root declares its URL and the nested ids are relative; otherwise they are absolute."""
    idk = "id" if d <= 4 else "$id"
    root = {idk: S_URL + "root.json"} if with_root_id else {}
    pre = "" if with_root_id else S_URL

    def sub(base):
        return {idk: pre + base, "properties": {"v": {"$ref": "x.json"}, "w": {"$ref": "x.json#/definitions/t"}}}
    root["definitions"] = {"t": {"type": "boolean"}}
    root["properties"] = {"a": sub("a/"), "b": sub("b/"), "d": {"$ref": "#/definitions/t"},
                          "e": {"$ref": S_URL + "a/x.json#/definitions/u"}}
    ax = {idk: DOC_URLS["ax"]} if with_root_id else {}
    ax.update({"type": "integer", "definitions": {"t": {"type": "integer"}, "u": {"$ref": "#/definitions/t"}}})
    bx = {idk: DOC_URLS["bx"]} if with_root_id else {}
    bx.update({"type": "string", "definitions": {"t": {"type": "string"}}})
    return {"root": root, "ax": ax, "bx": bx}


def _full(v):
    return {"a": {"v": v, "w": v}, "b": {"v": v, "w": v}, "d": v, "e": v}


# one validator sees them in this order: the second base first, then the first, the document-internal text
# before the root's, then everything in schema order
US = [{"b": {"v": 1}}, {"a": {"v": 1}}, {"e": 1}, _full(1), _full("x"), _full(True)]
S_REFNODES = [("root", ("properties", q, "properties", p)) for q in "ab" for p in "vw"] + [
    ("root", ("properties", "d")), ("root", ("properties", "e")), ("ax", ("definitions", "u"))]
S_POS = [("root", ()), ("root", ("properties", "a")), ("root", ("properties", "b")), ("root", ("definitions", "t")),
         ("ax", ()), ("ax", ("definitions", "t")), ("bx", ()), ("bx", ("definitions", "t"))]
S_IDVALS = ["a/", "b/", S_URL + "a/", S_URL + "b/", "x.json", DOC_URLS["ax"], DOC_URLS["bx"]]


def observe_world(d, world, instances, mode):
    """The observations for `instances`, validated in this order by ONE validator whose resolver is built for
    the world (a fresh resolver per instance costs five times as much; the unedited and the edited world go
    through the same sequence, and a replay file holds the sequence up to the differing instance).
    mode 'store': the documents other than the root are in the resolver's store (under DOC_URLS); 'served':
    a handler serves them.  No other URL can be retrieved in either mode."""
    cls = _e1.CLS[d]
    world = copy.deepcopy(world)
    docs = dict((DOC_URLS[k], doc) for k, doc in world.items() if k != "root")

    def handler(uri):
        if mode == "served":
            return copy.deepcopy(docs[uri])
        raise KeyError(uri)
    store = docs if mode == "store" else {}
    try:
        r = RefResolver.from_schema(world["root"], id_of=cls.ID_OF, store=store,
                                    handlers={"http": handler, "https": handler})
        v = cls(world["root"], resolver=r)
    except Exception as e:
        return ["EXC-at-construction " + type(e).__name__] * len(instances)
    out = []
    for x in instances:
        try:
            out.append(sorted((ident(e) for e in v.iter_errors(x)), key=repr))
        except exceptions.RefResolutionError:
            out.append("RefResolutionError")
        except exceptions.UnknownType:
            out.append("UnknownType")
        except Exception as e:
            out.append("EXC " + type(e).__name__)
    return out


# ---- pre-histories: the same schema OBJECT is first used by validators of other drafts ----------------------------

F_ROOT = "file:///c10-nonexistent/root.json"     # nothing can be retrieved from it (and nothing goes to a network)
PRE_INSTS = [[0, "a"], {"a": 0}]


def others(d):
    return [a for a in _e1.DRAFTS if a != d]


def histories(d, depth):
    """All sequences without repetition of the other drafts, of length 0..depth (shortest first)."""
    out, layer = [[]], [[]]
    for _ in range(depth):
        layer = [h + [a] for h in layer for a in others(d) if a not in h]
        out += layer
    return out


def observe_after(d, S, pre, insts, pre_insts):
    """A fresh copy of S is given, as the very same object, to a validator of each draft of `pre` in turn (no
    resolver passed; constructed, then `pre_insts` validated, whatever that yields or raises — S need not be a
    schema of that draft), and only then to draft d's class, which validates `insts`."""
    obj = copy.deepcopy(S)
    for a in pre:
        try:
            va = _e1.CLS[a](obj)
        except Exception:
            continue
        for x in pre_insts:
            try:
                list(va.iter_errors(x))
            except Exception:
                pass
    try:
        v = _e1.CLS[d](obj)
    except Exception as e:
        return ["EXC-at-construction " + type(e).__name__] * len(insts)
    return [observe(d, obj, x, None, v) for x in insts]


def pre_violation(d, S, S2, pre, insts, pre_insts, i, base, got, what):
    return {"signature": "C10|%s|%s" % (what["kind"], what["name"]), "size": len(str(S2)) + len(str(insts[i])),
            "case": {"draft": d, "schema": S, "edited": S2, "instance": insts[i], "instances_after": insts[:i + 1],
                     "pre": pre, "pre_instances": pre_insts},
            "detail": {"before": base, "after": got, "what": what,
                       "history": "the edited schema object was first used by " + ", then ".join(
                           "Draft%dValidator" % a for a in pre)}}


# schemas whose references go through the URL that an identifier at the root would declare
URL_BASES = [
    lambda: ({"definitions": {"t": {"type": "integer"}},
              "properties": {"a": {"$ref": "root.json#/definitions/t"}, "b": {"$ref": F_ROOT + "#/definitions/t"}}}, ()),
]
UURL = [{"a": 0}, {"a": "x"}, {"b": 0}, {"b": "x"}, {}]
URL_IDVALS = [F_ROOT, F_ROOT + "#", "file:///c10-nonexistent/", "root.json"]


# ---- the command-line route ---------------------------------------------------------------------------------------

CLI_DOCS = {"num.json": {"type": "integer"}, "sub/num.json": {"type": "string"},
            "sub/ghost.json": {"type": "string"}, "other.json": {"type": "boolean"}}
# validated by one run, in this order; the last one reaches the reference that names no file (the run dies there)
CLI_INSTANCES = [1, "one", {"n": 1, "m": 1, "s": {"v": 1}}, {"n": "x", "m": "x", "s": {"v": "x"}}, [1, "x"], {"g": 1}]
CLI_POS = [(), ("properties", "s"), ("definitions", "t")]


def cli_schema(d, declare):
    """n / items / definitions.t -> num.json (integers, relative to --base-uri), m -> sub/num.json (strings),
    s: a subschema that establishes the scope sub/ with the draft's own id keyword, g -> ghost.json, which
    exists under sub/ only."""
    idk = "id" if d <= 4 else "$id"
    S = {"$schema": META[d] + "#"} if declare else {}
    S.update({"properties": {"n": {"$ref": "num.json"}, "m": {"$ref": "sub/num.json"},
                             "s": {idk: "sub/", "properties": {"v": {"$ref": "num.json"}}},
                             "g": {"$ref": "ghost.json"}, "k": {"$ref": "#/definitions/t"}},
              "items": {"$ref": "num.json"}, "definitions": {"t": {"type": "integer", "minimum": 0}}})
    return S


def cli_id_values(root_uri):
    return ["sub/", "sub/schema.json", "other.json", "./sub/deeper/../", root_uri + "sub/", root_uri + "sub/x.json",
            "file:///c10-nonexistent/"]


def cli_observe(d, S, declare, base_kind, files=CLI_DOCS, instances=CLI_INSTANCES):
    """(exit status or the exception that escaped, stdout, stderr) of one in-process run of the command line in
    a fresh private directory, with the directory's name replaced in the texts.  base_kind: --base-uri is the
    directory ('dir') or the schema file ('file')."""
    from jsonschema import cli
    root = tempfile.mkdtemp(prefix="c10-cli.", dir="/dev/shm" if os.path.isdir("/dev/shm") else None)
    try:
        for rel, doc in files.items():
            path = os.path.join(root, rel)
            os.makedirs(os.path.dirname(path), exist_ok=True)
            with open(path, "w") as f:
                json.dump(doc, f)
        root_uri = "file://" + root + "/"
        S = json.loads(json.dumps(S).replace("<ROOT-URI>", root_uri))
        with open(os.path.join(root, "schema.json"), "w") as f:
            json.dump(S, f)
        argv = []
        for i, x in enumerate(instances):
            path = os.path.join(root, "instance%d.json" % i)
            with open(path, "w") as f:
                json.dump(x, f)
            argv += ["-i", path]
        argv += ["--base-uri", root_uri + ("schema.json" if base_kind == "file" else "")]
        if not declare:
            argv += ["-V", "Draft%dValidator" % d]
        argv.append(os.path.join(root, "schema.json"))
        out, err = io.StringIO(), io.StringIO()
        try:
            code = cli.run(cli.parse_args(argv), stdout=out, stderr=err)
        except SystemExit as e:
            code = "SystemExit %r" % (e.code,)
        except Exception as e:
            code = "%s: %s" % (type(e).__name__, str(e)[:300])
        return [str(code).replace(root, "<ROOT>"), out.getvalue().replace(root, "<ROOT>"),
                err.getvalue().replace(root, "<ROOT>")]
    finally:
        shutil.rmtree(root, ignore_errors=True)


def run_cli(acc, d, ctx):
    other = "$id" if d <= 4 else "id"
    names = foreign_names(d)
    for declare in (False, True):
        for base_kind in ("dir", "file"):
            S = cli_schema(d, declare)
            if not _e1.accepted(d, S):
                raise AssertionError("the command-line base schema is not valid: %r" % (S,))
            base = cli_observe(d, S, declare, base_kind)
            k = "cli-base-exit-" + base[0][:40]
            acc.outcomes[k] = acc.outcomes.get(k, 0) + 1
            for pos in CLI_POS:
                for name in names:
                    if consulted(d, S, pos, name):
                        continue
                    vals = values_for(name, ctx.tier if ctx.thorough else "would-fail")
                    if name == other:
                        vals = cli_id_values("<ROOT-URI>") + vals
                    for val in dedupe(vals):
                        S2 = insert(S, pos, {name: val})
                        if S2 is None:
                            continue
                        if not _e1.accepted(d, json.loads(json.dumps(S2).replace("<ROOT-URI>", "file:///x/"))):
                            acc.skipped += 1
                            continue
                        got = cli_observe(d, S2, declare, base_kind)
                        acc.count(got == base, True, True)
                        if got != base:
                            kind = "other-draft-id-on-the-command-line" if name == other else "foreign-on-the-command-line"
                            acc.viol.append({
                                "signature": "C10|%s|%s" % (kind, name), "size": len(str(S2)),
                                "case": {"draft": d, "cli": {"schema": S, "edited": S2, "declare": declare,
                                                             "base_uri": base_kind, "files": CLI_DOCS,
                                                             "instances": CLI_INSTANCES}},
                                "detail": {"before": base, "after": got,
                                           "what": {"kind": kind, "name": name, "pos": list(pos)}}})
    acc.samples.append({"draft": d, "command_line": "jsonschema -i instance0.json ... --base-uri file://<dir>/ "
                        "[-V Draft%dValidator] schema.json" % d, "schema": cli_schema(d, False),
                        "files": CLI_DOCS, "inserted": "every foreign name at %r" % (CLI_POS,)})


# ---- pre-histories on the class level ---------------------------------------------------------------------------

def always_fails(validator, value, instance, schema):
    yield exceptions.ValidationError("a keyword the draft does not define was applied")


CLASS_OPS = ["create-from-the-class-table", "create-from-the-table-items", "extend-then-grow", "extend-with",
             "grow-the-callers-dict", "grow-the-callers-dict-and-create-again"]
H_BASES = [{"type": "integer"}, {"properties": {"a": {"type": "integer"}}}, {"items": [{}], "additionalItems": False}]
H_INSTS = [1, "x", {"a": "x"}, [1, 2]]


def class_snapshot():
    return (dict((d, (cls.VALIDATORS, dict(cls.VALIDATORS))) for d, cls in _e1.CLS.items()),
            dict(_jsv.validators), dict(_jsv.meta_schemas))


def class_restore(snap):
    """Put the stock tables and the registries back; returns what had to be repaired; raises if it cannot."""
    repaired = []
    tables, reg1, reg2 = snap
    for d, (obj, content) in tables.items():
        cls = _e1.CLS[d]
        if cls.VALIDATORS is not obj:
            cls.VALIDATORS = obj
            repaired.append("Draft%dValidator.VALIDATORS rebound" % d)
        if dict(obj) != content:
            obj.clear()
            obj.update(content)
            repaired.append("Draft%dValidator.VALIDATORS content" % d)
    for live, saved, name in ((_jsv.validators, reg1, "validators"), (_jsv.meta_schemas, reg2, "meta_schemas")):
        if dict(live) != saved:
            for k in list(live):
                del live[k]
            for k, v in saved.items():
                live[k] = v
            repaired.append("registry " + name)
    now = class_snapshot()
    if [(d, c) for d, (_, c) in sorted(now[0].items())] != [(d, c) for d, (_, c) in sorted(tables.items())] \
            or now[1] != reg1 or now[2] != reg2:
        raise RuntimeError("the class tables / registries could not be restored")
    return repaired


def class_history(d, observed, ops, probe, probe_after=None):
    """Runs one history and returns probe(observed class) before and probe_after(observed class) after it.
    observed 'stock': the draft's own class; 'plain': a class created from the caller's own dict (a copy of the
    stock table).  Every op derives a class and lets a table grow IN PLACE by an always-failing implementation
    of every keyword foreign to draft d.  The stock tables and the registries are restored and verified."""
    stock = _e1.CLS[d]
    impls = dict((k, always_fails) for k in foreign_names(d))
    snap = class_snapshot()
    try:
        table = dict(stock.VALIDATORS)
        kw = dict(meta_schema=stock.META_SCHEMA, type_checker=stock.TYPE_CHECKER, id_of=stock.ID_OF)
        obs = stock if observed == "stock" else _jsv.create(validators=table, **kw)
        before = probe(obs)
        for op in ops:
            if op == "create-from-the-class-table":
                new = _jsv.create(validators=obs.VALIDATORS, **kw)
                new.VALIDATORS.update(impls)
            elif op == "create-from-the-table-items":
                new = _jsv.create(validators=list(obs.VALIDATORS.items()), **kw)
                new.VALIDATORS.update(impls)
            elif op == "extend-then-grow":
                new = _jsv.extend(obs, {})
                new.VALIDATORS.update(impls)
            elif op == "extend-with":
                new = _jsv.extend(obs, impls)
            elif op == "grow-the-callers-dict":
                table.update(impls)
            elif op == "grow-the-callers-dict-and-create-again":
                table.update(impls)
                new = _jsv.create(validators=table, **kw)
            else:
                raise KeyError(op)
        after = (probe_after or probe)(obs)
    finally:
        repaired = class_restore(snap)
    return before, after, repaired


def class_histories(observed, depth):
    ops = [o for o in CLASS_OPS if observed == "plain" or "callers-dict" not in o]
    out, layer = [], [[]]
    for _ in range(depth):
        layer = [h + [o] for h in layer for o in ops]
        out += layer
    return out


def h_edits(d):
    """(base schema, edited schema, instance) of the insertion differential that is observed around a history."""
    out = []
    for S in H_BASES:
        if not _e1.accepted(d, S):
            continue
        for pos in positions(S):
            for name in foreign_names(d):
                if consulted(d, S, pos, name):
                    continue
                S2 = insert(S, pos, {name: values_for(name, "would-fail")[0]})
                if S2 is not None and _e1.accepted(d, S2):
                    out.append((S, S2, name))
    return out


def run_class_history(acc, d, ctx):
    edits = h_edits(d)

    def obs(cls, S, x):
        try:
            return sorted((ident(e) for e in cls(S).iter_errors(x)), key=repr)
        except Exception as e:
            return "EXC " + type(e).__name__

    def probe(cls):
        return [[obs(cls, S, x) for x in H_INSTS] for S in H_BASES if _e1.accepted(d, S)]

    def probe_after(cls):
        return [[obs(cls, S2, x) for x in H_INSTS] for _, S2, _ in edits]

    for observed in ("stock", "plain"):
        bad_ops = []
        for ops in class_histories(observed, 3 if ctx.thorough else 2):
            if any(all(o in ops for o in bad) for bad in bad_ops):
                acc.outcomes["class-histories-subsumed-by-a-shorter-violating-one"] = acc.outcomes.get(
                    "class-histories-subsumed-by-a-shorter-violating-one", 0) + 1
                continue
            before, after, repaired = class_history(d, observed, ops, probe, probe_after)
            acc.outcomes["class-histories"] = acc.outcomes.get("class-histories", 0) + 1
            if repaired:
                acc.outcomes["class-histories-after-which-a-stock-table-had-to-be-repaired"] = acc.outcomes.get(
                    "class-histories-after-which-a-stock-table-had-to-be-repaired", 0) + 1
            fresh = dict((json.dumps(S), row) for S, row in zip([S for S in H_BASES if _e1.accepted(d, S)], before))
            found = False
            for (S, S2, name), row in zip(edits, after):
                for x, got, b in zip(H_INSTS, row, fresh[json.dumps(S)]):
                    acc.count(got == b, b, True)
                    if got != b:
                        found = True
                        acc.viol.append({
                            "signature": "C10|foreign-keyword-active-after-class-history|%s:%s" % (observed, "+".join(ops)),
                            "size": len(str(S2)) + 40 * len(ops),
                            "case": {"draft": d, "class_history": {"observed": observed, "ops": ops}, "schema": S,
                                     "edited": S2, "instance": x},
                            "detail": {"before": b, "after": got, "what": {"kind": "class-history", "name": name},
                                       "stock_tables_repaired_afterwards": repaired}})
            if found:
                bad_ops.append(ops)
    acc.samples.append({"draft": d, "class_histories": class_histories("plain", 1),
                        "tables_grow_by": "always-failing implementations of %d foreign names" % len(foreign_names(d)),
                        "observed_differential": "%d single-keyword insertions x %d instances" % (len(edits), len(H_INSTS))})


def world_configs(d, tier):
    """(with_ids, declared $schema or None, document, position): one work unit each."""
    out = []
    for with_ids in (True, False):
        for doc, pos in W_POS:
            out.append((with_ids, None, doc, pos))
    for with_ids in (True, False) if tier == "thorough" else (True,):
        for _, u in SCHEMA_IDS:
            if tier == "thorough" or u.endswith("#"):
                out.append((with_ids, u, None, None))
    return out


def plan(ctx):
    units = []
    sizes = {}
    for d in _e1.DRAFTS:
        lst = _e1.get_list("singles", d, ctx.tier)
        groups = _e1.get_list("groups", d, ctx.tier)
        nested = _e1.get_list("nested", d, ctx.tier)
        extra = nested if ctx.thorough else groups[::6]
        _e1._cache[("c10base", d)] = lst + extra
        sizes["base_schemas_d%d" % d] = len(lst) + len(extra)
        sizes["foreign_names_d%d" % d] = len(foreign_names(d))
        emp = empty_closure(lst + groups + (nested if ctx.thorough else []), exclude=lst + extra)
        _e1._cache[("c10empty", d)] = emp
        sizes["empty_closure_schemas_d%d" % d] = len(emp)
        sizes["empty_subschema_positions_d%d" % d] = sum(
            1 for S in emp for p in positions(S) if p != () and _get(S, p) == {})
        n = 16 if ctx.tier == "quick" else 48
        units += [(d, "insert", i, n) for i in range(n)]
        units += [(d, "empty", i, n) for i in range(n)]
        nw = len(world_configs(d, ctx.tier))
        units += [(d, "world", i, nw) for i in range(nw)]
        units += [(d, "world-ref-sibling", i, 2) for i in range(2)]
        units += [(d, "scopes-ref-sibling", i, 2) for i in range(2)]
        units += [(d, "scopes", i, 2) for i in range(2)]
        units += [(d, "ref-sibling", 0, 1), (d, "other-id", 0, 1), (d, "retrieved-doc", 0, 1)]
        units += [(d, "cli", 0, 1), (d, "class-history", 0, 1)]
    sizes["world_schema_like_values"] = len(schemaish_values())
    sizes["world_instances"] = len(UW)
    sizes["world_insert_positions"] = len(W_POS)
    sizes["world_ref_nodes"] = len(W_REFNODES)
    sizes["schema_keyword_values"] = len(HOT["$schema"])
    sizes["scope_world_instances"] = len(US)
    sizes["scope_world_ref_nodes"] = len(S_REFNODES)
    sizes["scope_world_insert_positions"] = len(S_POS)
    sizes["pre_histories_other_id"] = len(histories(7, 3 if ctx.thorough else 2))
    sizes["pre_history_insert_base_stride"] = PRE_STRIDE[ctx.tier]
    return {
        "units": units,
        "rule": ("[insert] base schemas (all singles of G(draft) incl. their nested slots, plus sibling groups / nested "
                 "applicators) x every subschema position x every name outside the draft's vocabulary (other "
                 "drafts' keywords, 2019-09+ names, arbitrary names, the draft's annotations incl. $schema with every "
                 "registered metaschema id with and without '#', multi-keyword combinations, $schema of another draft "
                 "together with all of that draft's keywords) x values (values that would fail if the keyword were "
                 "active + hostile generic values) x 9 (quick) / 16 (thorough) instances; plus MANY foreign names "
                 "together at each position (all foreign names / those and x-0..x-59 / x-0..x-39: more members than "
                 "any keyword table), where also the ORDER of the errors from iter_errors and, for instances with >= 2 "
                 "errors, the error raised by Validator.validate() and by jsonschema.validate(cls=...) must be "
                 "unchanged; "
                 "[empty] the empty-subschema closure of the grammar (every single / sibling group (thorough: / nested "
                 "schema) with {} substituted at each subschema position, and at all of them, distinct up to key "
                 "order, minus the insert bases) x (each empty subschema (quick: the would-fail value(s) of each name "
                 "and `true`), and the subschema that holds it (quick: only the would-fail value(s))) x the same "
                 "names and values x the instances (of 12, with an array longer than every tuple) whose JSON type some "
                 "keyword of the schema applies to (thorough: all 12); "
                 "[world] two-document reference worlds (ids declared + relative references / nothing declared + "
                 "absolute references; pointer, plain-name, whole-document, chained and unresolvable references; "
                 "targets written in draft-specific vocabulary) x {other document in the store, served by a handler "
                 "(quick: served only for edits of the served document in the worlds that declare ids)}; one "
                 "validator per (world, mode) validates the instances in a fixed order; x "
                 "every document root and every reference target x the same names x (the same values + 53 "
                 "schema-looking values carrying id/$id (plain-name, pointer, relative, absolute) / definitions / $ref, "
                 "bare, in an object, in an array (quick: under 3 of the 11 arbitrary names and under every other "
                 "name; in the worlds without declared ids only the bare identifier-carrying objects) + plain names for $anchor-like keywords), and $schema (8 ids) x every "
                 "foreign name with a would-fail value; the same worlds (quick: those that declare ids) with every "
                 "target already declaring each of the 8 (quick: the 4 with '#') $schema ids x names x would-fail values; 8 instances (quick: 4 "
                 "for the schema-looking values); "
                 "the worlds also hold a reference to a URL under which no document exists, and that URL is among the "
                 "identifier values; "
                 "[scopes] worlds in which two subschemas establish two base URIs (own id keyword; relative under a "
                 "root id / absolute without) and the same reference texts designate different documents under each, "
                 "and one text designates different things in the root and inside a referenced document; 6 instances "
                 "validated by one validator (second scope first, first scope, document-internal text first, all); "
                 "every keyword of any draft next to each of the 7 $refs, and every foreign name (other id spelling "
                 "with the scopes' URLs) at 8 positions; store and (with root id; thorough: always) served; "
                 "plus every keyword of any draft next to a $ref (5 small bases and every $ref of the worlds), and the "
                 "other draft's id spelling above a relative reference and at the root of a schema whose references go "
                 "through the URL it names; "
                 "[cli] jsonschema.cli.run in-process on a private scratch directory (schema, 6 instance files validated "
                 "by one run, local documents num.json / sub/num.json / sub/ghost.json / other.json), --base-uri = the "
                 "directory / the schema file, -V <class> / $schema, relative references, a scope subschema and a "
                 "reference to a file that exists only under sub/; every foreign name with its would-fail value(s) "
                 "(thorough: all values) and the other id spelling with 7 relative / absolute values, at the root, the "
                 "scope subschema and a definition; exit status / escaped exception, stdout and stderr identical; "
                 "[class-history] observed class = the stock class / a class created from the caller's copy of its "
                 "table; every sequence of length <= 2 (thorough 3) of {create from the class's VALIDATORS object, "
                 "create from its items, extend then grow, extend with, (caller's dict:) grow, grow and create again}, "
                 "each letting a table grow in place by an always-failing implementation of every foreign name; then "
                 "every single-keyword insertion into 3 base schemas x 4 instances must give the errors of the base "
                 "schema before the history; stock tables and registries restored and verified after every history; "
                 "[pre-histories] the edited schema as ONE object is first given to validators of other drafts "
                 "(constructed without resolver + instances validated), then to the observed draft's class, and must "
                 "give the errors of the unedited schema used fresh: for the id cases every sequence without "
                 "repetition of other drafts of length <= 2 (thorough 3); for the insert family the sequence of all "
                 "three other drafts x every position x the first would-fail value of each name x every 4th (thorough: 2nd) "
                 "base schema; edited schemas / documents the real "
                 "check_schema rejects are skipped; all cases distinct by construction; non-trivial = the unedited "
                 "schema rejects the instance or the inserted value is a 'would fail if active' value"),
        "bounds": dict(sizes, instances=len(U2) if ctx.thorough else len(U2[::2]) + 1, empty_family_instances=len(UE),
                       tier=ctx.tier),
        "assumptions": ["vocabulary table mc/props/c10.py written from the specifications",
                        "messages of not/oneOf/disallow/type/dependencies/extends errors are not compared (they embed "
                        "the repr of the edited subschema)",
                        "$schema is treated as an annotation of every draft: the validator class is chosen by the "
                        "caller, iter_errors of that class never reads it",
                        "a violation that occurs for every inserted name at one position is reported under a "
                        "signature that names the position instead of the keyword",
                        "pre-use by another draft's class ignores whatever that class yields or raises: the schema "
                        "need not be valid for it"],
    }


class Acc(object):
    """Counters and violations of one work unit."""

    def __init__(self, d):
        self.d = d
        self.ev = self.nt = self.skipped = 0
        self.viol, self.samples, self.outcomes = [], [], {}

    def count(self, same, base, hot):
        self.ev += 1
        key = "same-nonempty" if (same and base) else ("same-empty" if same else "DIFFERENT")
        self.outcomes[key] = self.outcomes.get(key, 0) + 1
        if base or hot:
            self.nt += 1

    def result(self):
        return {"evaluations": self.ev, "nontrivial": self.nt, "violations": self.viol, "samples": self.samples,
                "outcomes": self.outcomes, "counters": {"edited_schemas_rejected_by_check_schema": self.skipped}}


def violation(d, S, S2, x, base, got, what, store=None):
    return {"signature": "C10|%s|%s" % (what["kind"], what["name"]), "size": len(str(S2)) + len(str(x)),
            "case": {"draft": d, "schema": S, "edited": S2, "instance": x, "store": store},
            "detail": {"before": base, "after": got, "what": what}}


PRE_STRIDE = {"quick": 4, "thorough": 2}   # every n-th base schema of the insert family also goes through the pre-history


def insert_at(acc, d, S, pos, names, tier, UQ, base, multis, pre=None):
    """All names x values (and the combinations) at one position of one schema.  If *every* name changes the
    errors there, the name is not what matters: the signature names the position instead."""
    node_empty = _get(S, pos) == {}
    tried, hit, found, single_hits = set(), set(), [], set()
    pre_tried, pre_hit, pre_found = set(), set(), []
    bulk = {}
    for name in names:
        if consulted(d, S, pos, name):
            continue
        hot = HOT.get(name, [])
        for val in values_for(name, tier):
            S2 = insert(S, pos, {name: val})
            if S2 is None:
                continue
            if not _e1.accepted(d, S2):
                acc.skipped += 1
                continue
            tried.add(name)
            bulk.setdefault(name, val)
            v2 = build(d, S2)
            for i, (x, b) in enumerate(zip(UQ, base)):
                got = observe(d, S2, x, None, v2)
                acc.count(got == b, b, val in hot)
                if got != b:
                    hit.add(name)
                    single_hits.add((name, i))
                    found.append(violation(d, S, S2, x, b, got, {"kind": "foreign", "name": name, "hot": val in hot}))
            if pre and hot and val == hot[0]:
                # the same edited schema, as one object, used by the other drafts' classes first
                for i, (got, b) in enumerate(zip(observe_after(d, S2, pre, UQ, PRE_INSTS), base)):
                    acc.count(got == b, b, True)
                    if got != b and (name, i) not in single_hits:
                        pre_hit.add(name)
                        pre_found.append(pre_violation(d, S, S2, pre, UQ, PRE_INSTS, i, b, got, {
                            "kind": "foreign-after-use-by-other-drafts", "name": name, "hot": True}))
                pre_tried.add(name)
    kw, _ = holder(pos)
    where = "at-the-root"
    if pos:
        where = ("in-empty-subschema-of-" if node_empty else "in-subschema-of-") + str(kw)
    all_hit = bool(tried) and hit == tried and len(tried) > 3
    if all_hit:
        for v in found:
            v["detail"]["what"]["kind"] = "any-foreign-keyword"
            v["signature"] = "C10|any-foreign-keyword|%s" % where
    if pre_tried and pre_hit == pre_tried and len(pre_tried) > 3:
        for v in pre_found:
            v["detail"]["what"]["kind"] = "any-foreign-keyword-after-use-by-other-drafts"
            v["signature"] = "C10|any-foreign-keyword-after-use-by-other-drafts|%s" % where
    acc.viol += found + pre_found
    # many foreign keywords at once (more members than any keyword table has): the same errors in the same
    # order from iter_errors, the same error raised by Validator.validate() and by jsonschema.validate()
    base_seq = None
    for label, extra in (("all-foreign-names", bulk), ("all-foreign-names-and-60-unknown-names", dict(bulk, **UNKNOWN_60)),
                         ("40-unknown-names", UNKNOWN_40)):
        S2 = insert(S, pos, extra) if len(extra) > 1 else None
        if S2 is None or not _e1.accepted(d, S2):
            continue
        if base_seq is None:
            base_seq = [observe_seq(d, S, x) for x in UQ]
        v2 = build(d, S2)
        for i, x in enumerate(UQ):
            b, got = base_seq[i], observe_seq(d, S2, x, v2)
            same_set = sorted(got, key=repr) == sorted(b, key=repr) if isinstance(got, list) and isinstance(b, list) \
                else got == b
            acc.count(got == b, b, True)
            diffs = []
            if got != b and (same_set or not (all_hit or any((k, i) in single_hits for k in extra))):
                diffs.append(("iter_errors", "errors" if not same_set else "order-of-the-errors", b, got))
            if isinstance(b, list) and len(b) >= 2 and same_set:
                for via in ("validate", "jsonschema.validate"):
                    rb, rg = observe_raised(d, S, x, via), observe_raised(d, S2, x, via)
                    acc.count(rg == rb, True, True)
                    if rg != rb:
                        diffs.append((via, "error-raised-by-" + via, rb, rg))
            for via, name, bb, gg in diffs:
                v = violation(d, S, S2, x, bb, gg, {"kind": "many-foreign-keywords", "hot": True, "name": name,
                                                     "inserted": label})
                v["case"]["ordered"] = via
                acc.viol.append(v)
    for kind, label, extra in multis:
        S2 = insert(S, pos, extra)
        if S2 is None or not _e1.accepted(d, S2):
            continue
        v2 = build(d, S2)
        for i, (x, b) in enumerate(zip(UQ, base)):
            got = observe(d, S2, x, None, v2)
            acc.count(got == b, b, True)
            if got != b and any((k, i) in single_hits for k in extra):
                # shrinks to a single inserted keyword, which is reported above
                acc.outcomes["DIFFERENT-combination-subsumed-by-one-of-its-keywords"] = acc.outcomes.get(
                    "DIFFERENT-combination-subsumed-by-one-of-its-keywords", 0) + 1
            elif got != b:
                acc.viol.append(violation(d, S, S2, x, b, got, {"kind": kind, "name": label, "hot": True}))


def multis_for(d):
    out = [("foreign-multi", "+".join(sorted(extra)), extra) for extra in MULTI[d]]
    out += [("foreign-with-$schema", "draft-0%d-vocabulary" % m, extra) for m, extra in dialect_multis(d)]
    return out


def run_insert(acc, d, shard, n, ctx):
    UQ = U2 if ctx.thorough else U2[::2] + [{"ba": 0, "ab": "a"}]
    bases = _e1._cache[("c10base", d)]
    names = foreign_names(d)
    multis = multis_for(d)
    for bi in range(shard, len(bases), n):
        S = bases[bi]
        if not isinstance(S, dict):
            continue
        base = [observe(d, S, x) for x in UQ]
        pre = others(d) if bi % PRE_STRIDE[ctx.tier] == 0 else None
        for pos in positions(S):
            insert_at(acc, d, S, pos, names, ctx.tier, UQ, base, multis, pre)
        if pre:
            acc.outcomes["bases-also-used-by-the-other-drafts-first"] = acc.outcomes.get(
                "bases-also-used-by-the-other-drafts-first", 0) + 1
        if len(acc.samples) < 1 and bi % 53 == 11:
            acc.samples.append({"draft": d, "schema": S, "inserted": {"const": "zz"}, "at": "every position"})


def run_empty(acc, d, shard, n, ctx):
    bases = _e1._cache[("c10empty", d)]
    names = foreign_names(d)
    multis = multis_for(d)
    for bi in range(shard, len(bases), n):
        S = bases[bi]
        UQ = [x for x in UE if ctx.thorough or _e1.nontrivial(S, x)]
        base = [observe(d, S, x) for x in UQ]
        where = []
        for pos in positions(S):
            if pos != () and _get(S, pos) == {}:
                for p in (pos, holder(pos)[1]):
                    if p not in where:
                        where.append(p)
        for pos in where:
            inside = _get(S, pos) == {}
            insert_at(acc, d, S, pos, names, ctx.tier if ctx.thorough else "would-fail-and-one" if inside
                      else "would-fail", UQ, base, multis)
            k = "positions-inside-an-empty-subschema" if _get(S, pos) == {} else "positions-next-to-an-empty-subschema"
            acc.outcomes[k] = acc.outcomes.get(k, 0) + 1
        if len(acc.samples) < 1 and bi % 37 == 5:
            acc.samples.append({"draft": d, "schema": S, "inserted": "every foreign name",
                                "at": "inside each {} and next to it"})


def world_violation(d, world, world2, insts, i, mode, base, got, what, with_ids, declared):
    return {"signature": "C10|%s|%s" % (what["kind"], what["name"]), "size": len(str(world2)) + len(str(insts[i])),
            "case": {"draft": d, "world": world, "edited_world": world2, "instances": insts[:i + 1], "mode": mode},
            "detail": {"before": base, "after": got, "what": what, "ids_declared": with_ids,
                       "targets_declare_$schema": declared}}


def world_edit(world, doc, pos, extra):
    e = insert(world[doc], pos, extra)
    if e is None:
        return None
    w2 = dict(world)
    w2[doc] = e
    return w2


def run_world(acc, d, idx, ctx):
    with_ids, declared, doc0, pos0 = world_configs(d, ctx.tier)[idx]
    world = make_world(d, with_ids, declared)
    if not (_e1.accepted(d, world["root"]) and _e1.accepted(d, world["other"])):
        raise AssertionError("a base world is not a valid schema: %r" % (world,))
    names = foreign_names(d)
    modes = ("store", "served")
    base = dict(((m, len(insts)), observe_world(d, world, insts, m)) for m in modes for insts in (UW, UW_S))
    for x, b in zip(UW, base["store", len(UW)]):
        k = "world-base-" + ("RefResolutionError" if b == "RefResolutionError" else "errors" if b else "valid")
        acc.outcomes[k] = acc.outcomes.get(k, 0) + 1

    hits = set()        # (document, position, inserted name [, $schema value], mode, instance) that differ

    def hkey(doc, pos, k, v, m, x):
        return (doc, pos, k, json.dumps(v) if k == "$schema" else None, m, json.dumps(x))

    def run(doc, pos, extra, what, hot, insts=UW):
        w2 = world_edit(world, doc, pos, extra)
        if w2 is None:
            return
        if not _e1.accepted(d, w2[doc]):
            acc.skipped += 1
            return
        for m in modes:
            if m == "served" and declared is None and not ctx.thorough and (doc == "root" or not with_ids):
                continue        # quick: served only for edits of the served document, in the worlds with ids
            for i, (got, b) in enumerate(zip(observe_world(d, w2, insts, m), base[m, len(insts)])):
                acc.count(got == b, b, hot)
                if got == b:
                    continue
                if len(extra) == 1:
                    for k, v in extra.items():
                        hits.add(hkey(doc, pos, k, v, m, insts[i]))
                elif any(hkey(doc, pos, k, v, m, insts[i]) in hits for k, v in extra.items()):
                    # shrinks to a single inserted keyword, which is reported on its own
                    acc.outcomes["DIFFERENT-combination-subsumed-by-one-of-its-keywords"] = acc.outcomes.get(
                        "DIFFERENT-combination-subsumed-by-one-of-its-keywords", 0) + 1
                    continue
                acc.viol.append(world_violation(d, world, w2, insts, i, m, b, got,
                                                dict(what, doc=doc, pos=list(pos)), with_ids, declared))

    def vocab_label(name, m, extra=None):
        """A keyword of the draft that `$schema` names: the signature says so instead of listing every name."""
        return "a-keyword-of-draft-0%d" % m if all(k in VOCAB[m] for k in (extra or [name])) else name

    if declared is None:
        # every name x (values, schema-looking values, plain names); then $schema x every name; at one position
        kind = "foreign" if (doc0, pos0) == ("root", ()) else "foreign-in-ref-target"
        other_id = "$id" if d <= 4 else "id"
        for name in names:
            hotv = HOT.get(name, [])
            for val in dedupe(values_for(name, ctx.tier) + NAME_VALUES.get(name, [])):
                k = "other-draft-id-in-ref-world" if name == other_id else kind
                run(doc0, pos0, {name: val}, {"kind": k, "name": name}, val in hotv or name in NAME_VALUES)
            if name in ARBITRARY and name not in ARBITRARY_CARRIERS and not ctx.thorough:
                continue
            for tag, val in schemaish_values():
                if not with_ids and not ctx.thorough and not (isinstance(val, dict) and ("$id" in val or "id" in val)):
                    continue        # quick: without declared ids only the bare objects that carry an identifier
                run(doc0, pos0, {name: val}, {"kind": "foreign-value-that-looks-like-a-schema", "name": tag,
                                              "under": name}, True, UW if ctx.thorough else UW_S)
        for name in names:
            if name != "$schema":
                for m, u in SCHEMA_IDS:
                    for val in HOT.get(name, [])[:1]:
                        run(doc0, pos0, {"$schema": u, name: val},
                            {"kind": "foreign-with-$schema", "name": vocab_label(name, m), "inserted": name,
                             "names_draft": m}, True)
        for _, label, extra in multis_for(d):
            for m, u in SCHEMA_IDS:
                if "$schema" not in extra:
                    run(doc0, pos0, dict(extra, **{"$schema": u}),
                        {"kind": "foreign-with-$schema", "name": vocab_label(label, m, extra), "inserted": label,
                         "names_draft": m}, True)
        acc.samples.append({"draft": d, "world": world, "inserted_into": [doc0, list(pos0)],
                            "inserted": "every foreign name x (values + schema-looking values), $schema x name"})
    else:
        # the targets already say `$schema`: plain insertion of foreign keywords with would-fail values
        m = [mm for mm, u in SCHEMA_IDS if u == declared][0]
        for doc, pos in W_POS:
            for name in names:
                for val in HOT.get(name, GENERIC[1:2]):
                    run(doc, pos, {name: val}, {"kind": "foreign-in-target-declaring-$schema",
                                                "name": vocab_label(name, m), "inserted": name}, True)
            for _, label, extra in multis_for(d):
                if "$schema" not in extra:
                    run(doc, pos, extra, {"kind": "foreign-in-target-declaring-$schema",
                                          "name": vocab_label(label, m, extra), "inserted": label}, True)


def ref_siblings(acc, d, world, refnodes, insts, modes, tier, with_ids):
    """Every keyword of any draft next to each `$ref` of a world.  If every name (other than the draft's own
    identifier, F11) changes the errors at one `$ref`, the signature says so instead of naming the keyword."""
    idk = "id" if d <= 4 else "$id"
    base = dict((m, observe_world(d, world, insts, m)) for m in modes)
    for doc, pos in refnodes:
        tried, hit, found = set(), set(), []
        for name in sorted(ALL - {"$ref"}):
            if consulted(d, world[doc], pos, name):
                continue    # Draft 3 `required` is read lexically by the parent `properties`
            for val in values_for(name, tier):
                w2 = copy.deepcopy(world)
                _get(w2[doc], pos)[name] = copy.deepcopy(val)
                if not _e1.accepted(d, w2[doc]):
                    acc.skipped += 1
                    continue
                if name != idk:
                    tried.add(name)
                for m in modes:
                    for i, (got, b) in enumerate(zip(observe_world(d, w2, insts, m), base[m])):
                        acc.count(got == b, b, True)
                        if got != b:
                            what = {"kind": "sibling-of-ref-own-id" if name == idk else "sibling-of-ref", "name": name,
                                    "doc": doc, "pos": list(pos)}
                            v = world_violation(d, world, w2, insts, i, m, b, got, what, with_ids, None)
                            if name == idk:
                                acc.viol.append(v)
                            else:
                                hit.add(name)
                                found.append(v)
        if tried and hit == tried and len(tried) > 3:
            for v in found:
                v["detail"]["what"]["kind"] = "any-foreign-keyword"
                v["signature"] = "C10|any-foreign-keyword|next-to-$ref"
        acc.viol += found


def run_world_ref_sibling(acc, d, idx, ctx):
    with_ids = bool(idx)
    ref_siblings(acc, d, make_world(d, with_ids), W_REFNODES, UW, ("store",),
                 ctx.tier if ctx.thorough else "would-fail", with_ids)


def scope_modes(with_root_id, ctx):
    return ("store", "served") if with_root_id or ctx.thorough else ("store",)


def run_scopes_ref_sibling(acc, d, idx, ctx):
    with_root_id = bool(idx)
    world = make_scopes(d, with_root_id)
    if not all(_e1.accepted(d, doc) for doc in world.values()):
        raise AssertionError("a base world is not a valid schema: %r" % (world,))
    for b in observe_world(d, world, US, "store"):
        k = "scope-world-base-" + ("errors" if b and isinstance(b, list) else "valid" if b == [] else str(b))
        acc.outcomes[k] = acc.outcomes.get(k, 0) + 1
    ref_siblings(acc, d, world, S_REFNODES, US, scope_modes(with_root_id, ctx), ctx.tier, with_root_id)
    acc.samples.append({"draft": d, "world": world, "inserted_next_to_each_ref": "every keyword of any draft"})


def run_scopes(acc, d, idx, ctx):
    """Foreign keywords (the other id spelling with the URLs of the scopes among its values) at the roots, the
    scope-establishing subschemas and the reference targets of a scope world."""
    with_root_id = bool(idx)
    world = make_scopes(d, with_root_id)
    modes = scope_modes(with_root_id, ctx)
    base = dict((m, observe_world(d, world, US, m)) for m in modes)
    other_id = "$id" if d <= 4 else "id"
    for doc, pos in S_POS:
        for name in foreign_names(d):
            if consulted(d, world[doc], pos, name):
                continue
            vals = values_for(name, ctx.tier if ctx.thorough else "would-fail") + (S_IDVALS if name == other_id else [])
            if ctx.thorough:
                vals = vals + [{sp: idv, "type": "array"} for sp in ("$id", "id") for idv in S_IDVALS]
            for val in dedupe(vals):
                w2 = world_edit(world, doc, pos, {name: val})
                if w2 is None:
                    continue
                if not _e1.accepted(d, w2[doc]):
                    acc.skipped += 1
                    continue
                for m in modes:
                    for i, (got, b) in enumerate(zip(observe_world(d, w2, US, m), base[m])):
                        acc.count(got == b, b, True)
                        if got != b:
                            what = {"kind": "other-draft-id-in-scope-world" if name == other_id else
                                    "foreign-in-scope-world", "name": name, "doc": doc, "pos": list(pos)}
                            acc.viol.append(world_violation(d, world, w2, US, i, m, b, got, what, with_root_id, None))


def run_other_id(acc, d, ctx):
    """The other drafts' spelling of the identifier, above a relative reference and at the root of a schema whose
    references go through the URL it would declare; fresh, and after every pre-history of uses of the same
    schema object by other drafts' classes."""
    other = "$id" if d <= 4 else "id"
    hs = histories(d, 3 if ctx.thorough else 2)
    for mk, insts, vals in [(mk, UID, HOT["id"] + ["", "#frag", "urn:x", 1, None, {"a": 1}]) for mk in ID_BASES] + [
            (mk, UURL, URL_IDVALS + HOT["id"]) for mk in URL_BASES]:
        S, pos = mk()
        if not _e1.accepted(d, S):
            continue
        base = [observe(d, S, x) for x in insts]
        for x, b in zip(insts, base):
            k = "other-id-base-" + (b if isinstance(b, str) else "errors" if b else "valid")
            acc.outcomes[k] = acc.outcomes.get(k, 0) + 1
        for val in vals:
            for p in dedupe([list(pos), []]):
                S2 = insert(S, tuple(p), {other: val})
                if S2 is None or not _e1.accepted(d, S2):
                    continue
                fresh_hits = set()
                for pre in hs:
                    got_all = observe_after(d, S2, pre, insts, insts) if pre else [observe(d, S2, x) for x in insts]
                    for i, (got, b) in enumerate(zip(got_all, base)):
                        acc.count(got == b, b, True)
                        if got == b:
                            continue
                        if not pre:
                            fresh_hits.add(i)
                            acc.viol.append(violation(d, S, S2, insts[i], b, got,
                                                      {"kind": "other-draft-id", "name": other, "hot": True}))
                        elif i not in fresh_hits:
                            acc.viol.append(pre_violation(d, S, S2, pre, insts, insts, i, b, got, {
                                "kind": "other-draft-id-after-use-by-other-drafts", "name": other}))
    acc.outcomes["pre-histories-per-edited-schema"] = len(hs)
    acc.samples.append({"draft": d, "schema": URL_BASES[0]()[0], "inserted": {other: F_ROOT},
                        "pre_histories": hs})


def run_unit(unit, ctx):
    d, kind, shard, n = unit
    acc = Acc(d)
    if kind == "insert":
        run_insert(acc, d, shard, n, ctx)
        return acc.result()
    if kind == "empty":
        run_empty(acc, d, shard, n, ctx)
        return acc.result()
    if kind == "world":
        run_world(acc, d, shard, ctx)
        return acc.result()
    if kind == "world-ref-sibling":
        run_world_ref_sibling(acc, d, shard, ctx)
        return acc.result()
    if kind == "scopes-ref-sibling":
        run_scopes_ref_sibling(acc, d, shard, ctx)
        return acc.result()
    if kind == "scopes":
        run_scopes(acc, d, shard, ctx)
        return acc.result()
    if kind == "other-id":
        run_other_id(acc, d, ctx)
        return acc.result()
    if kind == "cli":
        run_cli(acc, d, ctx)
        return acc.result()
    if kind == "class-history":
        run_class_history(acc, d, ctx)
        return acc.result()
    ev = nt = skipped = 0
    viol, samples, outcomes = [], [], {}

    def compare(S, S2, x, base, what, store=None, v=None):
        nonlocal ev, nt
        ev += 1
        got = observe(d, S2, x, store, v)
        key = "same-nonempty" if (got == base and base) else ("same-empty" if got == base else "DIFFERENT")
        outcomes[key] = outcomes.get(key, 0) + 1
        if base or what.get("hot"):
            nt += 1
        if got != base:
            viol.append(violation(d, S, S2, x, base, got, what, store))

    if kind == "ref-sibling":
        idk = "id" if d <= 4 else "$id"
        for mk in REF_BASES:
            S, store = mk(idk)
            if not _e1.accepted(d, S):
                continue
            base = [observe(d, S, x, store) for x in UREF]
            refpos = [p for p in positions(S) if isinstance(_get(S, p), dict) and "$ref" in _get(S, p)]
            for pos in refpos:
                for name in sorted(ALL - {"$ref"}):
                    if consulted(d, S, pos, name):
                        continue    # Draft 3 `required` is read lexically by the parent `properties`
                    for val in values_for(name, "thorough"):
                        S2 = copy.deepcopy(S)
                        node = _get(S2, pos)
                        node[name] = copy.deepcopy(val)
                        if not _e1.accepted(d, S2):
                            skipped += 1
                            continue
                        for x, b in zip(UREF, base):
                            what = {"kind": "sibling-of-ref", "name": name, "hot": True}
                            if name == idk:
                                what["kind"] = "sibling-of-ref-own-id"
                            compare(S, S2, x, b, what, store)
        samples.append({"draft": d, "schema": REF_BASES[0](idk)[0], "inserted_next_to_ref": "every keyword of any draft"})
    elif kind == "retrieved-doc":
        S, doc, insts, edits = retrieved_doc_cases(d)
        url = "http://h.invalid/dir/r.json"
        base = [observe_served(d, S, {url: doc}, x) for x in insts]
        for extra, pos in edits:
            doc2 = insert(doc, pos, extra)
            if doc2 is None:
                continue
            for x, b in zip(insts, base):
                ev += 1
                got = observe_served(d, S, {url: doc2}, x)
                nt += 1
                key = "same" if got == b else "DIFFERENT"
                outcomes[key] = outcomes.get(key, 0) + 1
                if got != b:
                    viol.append({"signature": "C10|foreign-keyword-in-retrieved-document|%s" % "+".join(sorted(extra)),
                                 "size": len(str(doc2)),
                                 "case": {"draft": d, "schema": S, "edited": S, "instance": x, "store": None,
                                          "served_before": {url: doc}, "served_after": {url: doc2}},
                                 "detail": {"before": b, "after": got}})
        samples.append({"draft": d, "schema": S, "retrieved_document": doc, "inserted": edits[0][0]})
    else:
        raise KeyError(kind)
    return {"evaluations": ev, "nontrivial": nt, "violations": viol, "samples": samples, "outcomes": outcomes,
            "counters": {"edited_schemas_rejected_by_check_schema": skipped}}


REMOTE_ROOT = "http://h.invalid/dir/root.json"
DECLARED = "http://h.invalid/declared.json"


def observe_served(d, S, served, x):
    """Validation where external documents are served by a handler (and cached by the resolver)."""
    cls = _e1.CLS[d]

    def handler(uri):
        return copy.deepcopy(served[uri])         # KeyError for unknown documents
    try:
        r = RefResolver.from_schema(S, id_of=cls.ID_OF, handlers={"http": handler})
        return sorted((ident(e) for e in cls(S, resolver=r).iter_errors(x)), key=repr)
    except exceptions.RefResolutionError:
        return "RefResolutionError"
    except Exception as e:
        return "EXC " + type(e).__name__


def retrieved_doc_cases(d):
    """Foreign keywords (notably the other draft's id spelling, naming a URI that is referenced later) inserted
    into a *retrieved* document."""
    idk = "id" if d <= 4 else "$id"
    other = "$id" if d <= 4 else "id"
    S = {idk: REMOTE_ROOT, "properties": {"a": {"$ref": "r.json#/t"}, "b": {"$ref": DECLARED + "#/t"},
                                          "c": {"$ref": "sub/x.json#/t"}}}
    doc = {"t": {"type": "integer"}, "definitions": {"u": {"type": "string"}}}
    insts = [{"a": 1, "b": 1}, {"a": "x"}, {"a": 1, "c": 1}, {"b": 1}, {}]
    edits = []
    for name, vals in ((other, [DECLARED, DECLARED + "#", "sub/x.json", "http://h.invalid/dir/sub/x.json", 1, None]),
                       ("foo", [DECLARED]), ("$anchor", ["t"]), ("$schema", [DECLARED])):
        for v in vals:
            edits.append(({name: v}, ()))
            edits.append(({name: v}, ("t",)))
    return S, doc, insts, edits


def _get(S, pos):
    for p in pos:
        S = S[p]
    return S


def replay(case, ctx):
    d = case["draft"]
    if "world" in case:
        a = observe_world(d, case["world"], case["instances"], case["mode"])[-1]
        b = observe_world(d, case["edited_world"], case["instances"], case["mode"])[-1]
        return {"reproduced": a != b, "before": a, "after": b}
    if "served_before" in case:
        a = observe_served(d, case["schema"], case["served_before"], case["instance"])
        b = observe_served(d, case["schema"], case["served_after"], case["instance"])
        return {"reproduced": a != b, "before": a, "after": b}
    if "cli" in case:
        c = case["cli"]
        a = cli_observe(d, c["schema"], c["declare"], c["base_uri"], c["files"], c["instances"])
        b = cli_observe(d, c["edited"], c["declare"], c["base_uri"], c["files"], c["instances"])
        return {"reproduced": a != b, "before": a, "after": b}
    if "class_history" in case:
        h = case["class_history"]

        def probe(cls):
            def obs(S):
                try:
                    return sorted((ident(e) for e in cls(S).iter_errors(case["instance"])), key=repr)
                except Exception as e:
                    return "EXC " + type(e).__name__
            return obs(case["schema"]), obs(case["edited"])
        before, after, repaired = class_history(d, h["observed"], h["ops"], probe)
        return {"reproduced": before[0] != after[1], "before": before[0], "after": after[1],
                "stock_tables_repaired_afterwards": repaired}
    if "pre" in case:
        a = observe(d, case["schema"], case["instance"])
        insts = case.get("instances_after") or [case["instance"]]
        b = observe_after(d, case["edited"], case["pre"], insts, case["pre_instances"])[-1]
        return {"reproduced": a != b, "before": a, "after": b}
    if case.get("ordered") in ("validate", "jsonschema.validate"):
        a = observe_raised(d, case["schema"], case["instance"], case["ordered"])
        b = observe_raised(d, case["edited"], case["instance"], case["ordered"])
        return {"reproduced": a != b, "before": a, "after": b}
    if case.get("ordered"):
        a = observe_seq(d, case["schema"], case["instance"])
        b = observe_seq(d, case["edited"], case["instance"])
        return {"reproduced": a != b, "before": a, "after": b}
    store = case.get("store")
    a = observe(d, case["schema"], case["instance"], store)
    b = observe(d, case["edited"], case["instance"], store)
    return {"reproduced": a != b, "before": a, "after": b}
