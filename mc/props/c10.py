"""C10 — unknown, annotation and other-draft keywords never affect validation.

Base schemas x every subschema position x every keyword name outside the
draft's vocabulary (from a vocabulary table written from the specifications)
x values (hostile values and values that would fail if the keyword were
active) x instances: the reported errors are unchanged.  Also: any keyword
next to a `$ref`, and id/$id of the other spelling.
"""
import copy
import json

from jsonschema import RefResolver, exceptions

from mc.props import _e1
from mc.ref import spec

ID = "C10"
LEVEL = "exploration"

# ---- vocabularies, written from the four specifications ---------------------
V3 = {"type", "properties", "patternProperties", "additionalProperties", "items", "additionalItems", "required",
      "dependencies", "minimum", "maximum", "exclusiveMinimum", "exclusiveMaximum", "minItems", "maxItems",
      "uniqueItems", "pattern", "minLength", "maxLength", "enum", "default", "title", "description", "format",
      "divisibleBy", "disallow", "extends", "id", "$ref", "$schema"}
V4 = (V3 - {"divisibleBy", "disallow", "extends"}) | {"multipleOf", "maxProperties", "minProperties", "allOf",
                                                      "anyOf", "oneOf", "not", "definitions"}
V6 = (V4 - {"id"}) | {"$id", "const", "contains", "propertyNames", "examples"}
V7 = V6 | {"if", "then", "else", "$comment", "readOnly", "writeOnly", "contentEncoding", "contentMediaType"}
VOCAB = {3: V3, 4: V4, 6: V6, 7: V7}
LATER = {"dependentRequired", "dependentSchemas", "unevaluatedProperties", "unevaluatedItems", "minContains",
         "maxContains", "$anchor", "$defs", "$recursiveRef", "$recursiveAnchor", "prefixItems", "$dynamicRef",
         "$vocabulary", "deprecated"}
ARBITRARY = {"foo", "", "x-y", "Type", "TYPE", "type ", "items2", "$foo", "requires", "optional", "maxDecimal"}
ANNOTATIONS = {3: {"title", "description", "default"},
               4: {"title", "description", "default", "definitions"},
               6: {"title", "description", "default", "definitions", "examples"},
               7: {"title", "description", "default", "definitions", "examples", "$comment", "readOnly",
                   "writeOnly", "contentEncoding", "contentMediaType"}}
ALL = V3 | V4 | V6 | V7 | LATER | ARBITRARY

GENERIC = [None, True, False, 0, 1, "a", "integer", [], [{}], ["a"], [False], {}, {"a": {}}, {"type": "string"},
           {"not": {}}, [{"type": "string"}]]
# values that would make (nearly) every instance fail if the keyword were active
HOT = {
    "allOf": [[{"type": "null"}, {"type": "string"}]], "anyOf": [[{"enum": ["zz"]}]], "oneOf": [[{}, {}]],
    "not": [{}], "const": ["zz"], "contains": [{"enum": ["zz"]}, False], "propertyNames": [{"maxLength": 0}, False],
    "extends": [{"enum": ["zz"]}, [{"enum": ["zz"]}]], "disallow": ["any", ["any"]], "divisibleBy": [1000000.5],
    "multipleOf": [1000000.5], "minProperties": [99], "maxProperties": [0], "required": [["zz"]],
    "dependentRequired": [{"a": ["zz"]}], "dependentSchemas": [{"a": False}], "unevaluatedProperties": [False],
    "unevaluatedItems": [False], "prefixItems": [[False]], "minContains": [99], "maxContains": [0],
    "if": [{}], "then": [False, {"enum": ["zz"]}], "else": [False, {"enum": ["zz"]}], "examples": [["zz"]],
    "definitions": [{"a": False}, {"a": {"enum": ["zz"]}}], "$defs": [{"a": False}],
    "id": ["http://other.invalid/x/", "sub/"], "$id": ["http://other.invalid/x/", "sub/"],
    "default": ["zz", {"a": 1}], "$comment": ["zz"], "readOnly": [True], "$anchor": ["a"], "$recursiveRef": ["#"],
    "$schema": ["http://json-schema.org/draft-03/schema#"],
}
MULTI = {  # several foreign keywords inserted together (they would interact if active)
    7: [], 6: [{"if": {}, "then": {"enum": ["zz"]}}, {"if": {"enum": ["zz"]}, "else": False}],
    4: [{"if": {}, "then": {"enum": ["zz"]}}, {"contains": {"enum": ["zz"]}, "minContains": 1}],
    3: [{"if": {}, "then": {"enum": ["zz"]}}, {"allOf": [{"enum": ["zz"]}], "not": {}}],
}

U2 = [None, True, 0, 1, 1.5, "", "a", "ab", [], [0], [0, "a"], {}, {"a": 0}, {"a": "a", "b": 0}, {"a": [0]},
      {"ba": 0, "ab": "a"}]

MSG_FREE = ("not", "oneOf", "disallow", "type", "dependencies", "extends")


def foreign_names(d):
    """Names to insert: everything outside the draft's vocabulary, plus the draft's annotations."""
    names = (ALL - VOCAB[d]) | ANNOTATIONS[d]
    names -= {"$ref"}
    return sorted(names)


def values_for(name, tier):
    vals = list(HOT.get(name, []))
    vals += GENERIC if tier == "thorough" else GENERIC[1::5]
    seen, out = set(), []
    for v in vals:
        t = json.dumps(v)
        if t not in seen:
            seen.add(t)
            out.append(v)
    return out


def ident(e):
    msg = e.message if e.validator not in MSG_FREE else None
    return (e.validator, msg, tuple(e.path), tuple(e.schema_path),
            tuple(sorted((ident(c) for c in e.context), key=repr)))


def positions(S, path=()):
    """Every subschema position (paths to dict-valued schema nodes)."""
    if isinstance(S, dict):
        yield path
        for k, v in S.items():
            if k in ("properties", "patternProperties", "dependencies", "definitions"):
                if isinstance(v, dict):
                    for kk, vv in v.items():
                        yield from positions(vv, path + (k, kk))
            elif k in ("items", "additionalItems", "additionalProperties", "not", "contains", "propertyNames",
                       "if", "then", "else", "extends", "allOf", "anyOf", "oneOf", "type", "disallow"):
                if isinstance(v, dict):
                    yield from positions(v, path + (k,))
                elif isinstance(v, list):
                    for i, vv in enumerate(v):
                        yield from positions(vv, path + (k, i))


def build(d, S, store=None):
    if store is not None:
        return _e1.CLS[d](S, resolver=RefResolver.from_schema(S, id_of=_e1.CLS[d].ID_OF, store=copy.deepcopy(store)))
    return _e1.CLS[d](S)


def observe(d, S, x, store=None, v=None):
    try:
        if v is None:
            v = build(d, S, store)
        return sorted((ident(e) for e in v.iter_errors(x)), key=repr)
    except exceptions.RefResolutionError as e:
        return "RefResolutionError"
    except exceptions.UnknownType:
        return "UnknownType"
    except Exception as e:
        return "EXC " + type(e).__name__


def insert(S, pos, extra):
    S2 = copy.deepcopy(S)
    node = S2
    for p in pos:
        node = node[p]
    for k in extra:
        if k in node:
            return None
    if "$ref" in node:
        return None
    # the draft's own keywords consult some sibling names; those are not "foreign" at that place
    node.update(copy.deepcopy(extra))
    return S2


def consulted(d, S, pos, name):
    """True iff `name` at this position is read by one of the draft's own keywords."""
    if d == 3 and name == "required" and len(pos) >= 2 and pos[-2] == "properties":
        return True
    return False


REF_BASES = [
    # (schema with a reference, store) — keywords are inserted next to the $ref
    lambda idk: ({"definitions": {"t": {"type": "integer"}}, "properties": {"a": {"$ref": "#/definitions/t"}}}, None),
    lambda idk: ({"definitions": {"t": {"type": "integer"}}, "items": [{"$ref": "#/definitions/t"}]}, None),
    lambda idk: ({"properties": {"v": {"type": "integer"}, "kids": {"items": {"$ref": ""}}}}, None),
    lambda idk: ({"properties": {"v": {"type": "integer"}, "kids": {"items": {"$ref": "#"}}}}, None),
    lambda idk: ({idk: "http://h.invalid/root.json", "definitions": {"t": {"type": "string"}},
                  "properties": {"a": {"$ref": "other.json#/d"}, "b": {"$ref": "#/definitions/t"}}},
                 {"http://h.invalid/other.json": {"d": {"type": "integer"}}}),
]
UREF = [{"a": 0}, {"a": "a"}, {"a": "a", "b": 0}, [0], ["a"], {}, 1, {"kids": [{"v": "x"}, {"v": 1, "kids": [{}]}]}]

ID_BASES = [
    # a relative reference *beneath* the insertion point makes a base change visible
    lambda: ({"definitions": {"t": {"type": "integer"}},
              "properties": {"a": {"properties": {"b": {"$ref": "#/definitions/t"}}}}}, ("properties", "a")),
    lambda: ({"definitions": {"t": {"type": "integer"}},
              "items": {"items": {"$ref": "#/definitions/t"}}}, ("items",)),
]
UID = [{"a": {"b": 0}}, {"a": {"b": "x"}}, [[0]], [["x"]], {}]


def plan(ctx):
    units = []
    sizes = {}
    for d in _e1.DRAFTS:
        lst = _e1.get_list("singles", d, ctx.tier)
        extra = _e1.get_list("nested", d, ctx.tier) if ctx.thorough else _e1.get_list("groups", d, ctx.tier)[::6]
        _e1._cache[("c10base", d)] = lst + extra
        sizes["base_schemas_d%d" % d] = len(lst) + len(extra)
        sizes["foreign_names_d%d" % d] = len(foreign_names(d))
        n = 16 if ctx.tier == "quick" else 48
        units += [(d, "insert", i, n) for i in range(n)]
        units += [(d, "ref-sibling", 0, 1), (d, "other-id", 0, 1), (d, "retrieved-doc", 0, 1)]
    return {
        "units": units,
        "rule": ("base schemas (all singles of G(draft) incl. their nested slots, plus sibling groups / nested "
                 "applicators) x every subschema position x every name outside the draft's vocabulary (other "
                 "drafts' keywords, 2019-09+ names, arbitrary names, the draft's annotations, multi-keyword "
                 "combinations) x values (values that would fail if the keyword were active + hostile generic "
                 "values) x 9 (quick) / 16 (thorough) instances; plus every keyword of any draft next to a $ref, and the other draft's "
                 "id spelling above a relative reference; edited schemas the real check_schema rejects are "
                 "skipped; all cases distinct by construction; non-trivial = the unedited schema rejects the "
                 "instance or the inserted value is a 'would fail if active' value"),
        "bounds": dict(sizes, instances=len(U2) if ctx.thorough else len(U2[::2]) + 1, tier=ctx.tier),
        "assumptions": ["vocabulary table mc/props/c10.py written from the specifications",
                        "messages of not/oneOf/disallow/type/dependencies/extends errors are not compared (they embed "
                        "the repr of the edited subschema)"],
    }


def run_unit(unit, ctx):
    d, kind, shard, n = unit
    ev = nt = skipped = 0
    viol, samples, outcomes = [], [], {}

    def compare(S, S2, x, base, what, store=None, v=None):
        nonlocal ev, nt
        ev += 1
        got = observe(d, S2, x, store, v)
        key = "same-nonempty" if (got == base and base) else ("same-empty" if got == base else "DIFFERENT")
        outcomes[key] = outcomes.get(key, 0) + 1
        if base or what.get("hot"):
            nt += 1
        if got != base:
            sig = "C10|%s|%s" % (what["kind"], what["name"])
            viol.append({"signature": sig, "size": len(str(S2)) + len(str(x)),
                         "case": {"draft": d, "schema": S, "edited": S2, "instance": x, "store": store},
                         "detail": {"before": base, "after": got, "what": what}})

    UQ = U2 if ctx.thorough else U2[::2] + [{"ba": 0, "ab": "a"}]
    if kind == "insert":
        bases = _e1._cache[("c10base", d)]
        names = foreign_names(d)
        for bi in range(shard, len(bases), n):
            S = bases[bi]
            if not isinstance(S, dict):
                continue
            base = [observe(d, S, x) for x in UQ]
            for pos in positions(S):
                for name in names:
                    if consulted(d, S, pos, name):
                        continue
                    hot = HOT.get(name, [])
                    for val in values_for(name, ctx.tier):
                        S2 = insert(S, pos, {name: val})
                        if S2 is None:
                            continue
                        if not _e1.accepted(d, S2):
                            skipped += 1
                            continue
                        v2 = build(d, S2)
                        for x, b in zip(UQ, base):
                            compare(S, S2, x, b, {"kind": "foreign", "name": name, "hot": val in hot}, None, v2)
                for extra in MULTI[d]:
                    S2 = insert(S, pos, extra)
                    if S2 is None or not _e1.accepted(d, S2):
                        continue
                    v2 = build(d, S2)
                    for x, b in zip(UQ, base):
                        compare(S, S2, x, b, {"kind": "foreign-multi", "name": "+".join(sorted(extra)), "hot": True}, None, v2)
            if len(samples) < 1 and bi % 53 == 11:
                samples.append({"draft": d, "schema": S, "inserted": {"const": "zz"}, "at": "every position"})
    elif kind == "ref-sibling":
        idk = "id" if d <= 4 else "$id"
        for mk in REF_BASES:
            S, store = mk(idk)
            if not _e1.accepted(d, S):
                continue
            base = [observe(d, S, x, store) for x in UREF]
            refpos = [p for p in positions(S) if isinstance(_get(S, p), dict) and "$ref" in _get(S, p)]
            for pos in refpos:
                for name in sorted(ALL - {"$ref"}):
                    if consulted(d, S, pos, name):
                        continue    # Draft 3 `required` is read lexically by the parent `properties`
                    for val in values_for(name, "thorough"):
                        S2 = copy.deepcopy(S)
                        node = _get(S2, pos)
                        node[name] = copy.deepcopy(val)
                        if not _e1.accepted(d, S2):
                            skipped += 1
                            continue
                        for x, b in zip(UREF, base):
                            what = {"kind": "sibling-of-ref", "name": name, "hot": True}
                            if name == idk:
                                what["kind"] = "sibling-of-ref-own-id"
                            compare(S, S2, x, b, what, store)
        samples.append({"draft": d, "schema": REF_BASES[0](idk)[0], "inserted_next_to_ref": "every keyword of any draft"})
    elif kind == "retrieved-doc":
        S, doc, insts, edits = retrieved_doc_cases(d)
        url = "http://h.invalid/dir/r.json"
        base = [observe_served(d, S, {url: doc}, x) for x in insts]
        for extra, pos in edits:
            doc2 = insert(doc, pos, extra)
            if doc2 is None:
                continue
            for x, b in zip(insts, base):
                ev += 1
                got = observe_served(d, S, {url: doc2}, x)
                nt += 1
                key = "same" if got == b else "DIFFERENT"
                outcomes[key] = outcomes.get(key, 0) + 1
                if got != b:
                    viol.append({"signature": "C10|foreign-keyword-in-retrieved-document|%s" % "+".join(sorted(extra)),
                                 "size": len(str(doc2)),
                                 "case": {"draft": d, "schema": S, "edited": S, "instance": x, "store": None,
                                          "served_before": {url: doc}, "served_after": {url: doc2}},
                                 "detail": {"before": b, "after": got}})
        samples.append({"draft": d, "schema": S, "retrieved_document": doc, "inserted": edits[0][0]})
    else:
        other = "$id" if d <= 4 else "id"
        for mk in ID_BASES:
            S, pos = mk()
            if not _e1.accepted(d, S):
                continue
            base = [observe(d, S, x) for x in UID]
            for val in HOT["id"] + ["", "#frag", "urn:x", 1, None, {"a": 1}]:
                for p in (pos, ()):
                    S2 = insert(S, p, {other: val})
                    if S2 is None or not _e1.accepted(d, S2):
                        continue
                    for x, b in zip(UID, base):
                        compare(S, S2, x, b, {"kind": "other-draft-id", "name": other, "hot": True})
        samples.append({"draft": d, "schema": ID_BASES[0]()[0], "inserted": {other: "http://other.invalid/x/"}})
    return {"evaluations": ev, "nontrivial": nt, "violations": viol, "samples": samples, "outcomes": outcomes,
            "counters": {"edited_schemas_rejected_by_check_schema": skipped}}


REMOTE_ROOT = "http://h.invalid/dir/root.json"
DECLARED = "http://h.invalid/declared.json"


def observe_served(d, S, served, x):
    """Validation where external documents are served by a handler (and cached by the resolver)."""
    cls = _e1.CLS[d]

    def handler(uri):
        return copy.deepcopy(served[uri])         # KeyError for unknown documents
    try:
        r = RefResolver.from_schema(S, id_of=cls.ID_OF, handlers={"http": handler})
        return sorted((ident(e) for e in cls(S, resolver=r).iter_errors(x)), key=repr)
    except exceptions.RefResolutionError:
        return "RefResolutionError"
    except Exception as e:
        return "EXC " + type(e).__name__


def retrieved_doc_cases(d):
    """Foreign keywords (notably the other draft's id spelling, naming a URI that is referenced later) inserted
    into a *retrieved* document."""
    idk = "id" if d <= 4 else "$id"
    other = "$id" if d <= 4 else "id"
    S = {idk: REMOTE_ROOT, "properties": {"a": {"$ref": "r.json#/t"}, "b": {"$ref": DECLARED + "#/t"},
                                          "c": {"$ref": "sub/x.json#/t"}}}
    doc = {"t": {"type": "integer"}, "definitions": {"u": {"type": "string"}}}
    insts = [{"a": 1, "b": 1}, {"a": "x"}, {"a": 1, "c": 1}, {"b": 1}, {}]
    edits = []
    for name, vals in ((other, [DECLARED, DECLARED + "#", "sub/x.json", "http://h.invalid/dir/sub/x.json", 1, None]),
                       ("foo", [DECLARED]), ("$anchor", ["t"]), ("$schema", [DECLARED])):
        for v in vals:
            edits.append(({name: v}, ()))
            edits.append(({name: v}, ("t",)))
    return S, doc, insts, edits


def _get(S, pos):
    for p in pos:
        S = S[p]
    return S


def replay(case, ctx):
    d = case["draft"]
    if "served_before" in case:
        a = observe_served(d, case["schema"], case["served_before"], case["instance"])
        b = observe_served(d, case["schema"], case["served_after"], case["instance"])
        return {"reproduced": a != b, "before": a, "after": b}
    store = case.get("store")
    a = observe(d, case["schema"], case["instance"], store)
    b = observe(d, case["edited"], case["instance"], store)
    return {"reproduced": a != b, "before": a, "after": b}
