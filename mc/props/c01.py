"""C01 — verdicts agree with the specification (DESIGN §5 C01).

Enumerates G(draft) x U for the four draft classes and compares
Validator.is_valid with the reference evaluator mc/ref/spec.py.
"""
from mc.props import _e1
from mc.ref import spec

ID = "C01"
LEVEL = "exploration"


def plan(ctx):
    units, sizes = _e1.make_units(ctx)
    U = _e1.get_universe(ctx.tier)
    Up = _e1.get_universe(ctx.tier, "pairs")
    return {
        "units": units,
        "rule": ("every schema of the grammar G(draft) = singles, ALL ordered pairs of singles with "
                 "different keywords, sibling-group products and nested applicators (depth 2, arity 3), "
                 "filtered by the real check_schema, x every instance of the universe U (plus, except for the pairs, "
                 "13 instances with integers beyond the double range and floats at the edges of exactness), x 4 drafts; "
                 "each (draft, schema, instance) is generated once (lists are de-duplicated by JSON text), "
                 "so evaluations are distinct; non-trivial = at least one keyword of the schema applies to "
                 "the instance's JSON type and the reference evaluator is exact on the case"),
        "bounds": dict(sizes, universe=len(U), universe_for_pairs=len(Up), tier=ctx.tier),
        "assumptions": [
            "reference evaluator mc/ref/spec.py is correct (bound to the official test suite by selftest)",
            "regular expressions restricted to the predicate table; float multipleOf only on dyadic operands",
        ],
    }


# numbers beyond the double range and at the edges of exactness, alone and inside containers (they meet the
# singles, the sibling groups and the nested schemas; the ordered pairs keep the pair universe)
EXTRA_NUM = [10 ** 400, -10 ** 400, 2 ** 1024, 2 ** 53 + 1, float(2 ** 53), 1e308, -1e308, 5e-324, -0.0,
             [10 ** 400], {"a": 10 ** 400}, [2 ** 1024, 2 ** 1024], {"a": -10 ** 400, "b": 1e308}]


def verdict(d, S, x):
    try:
        return ("ok", _e1.CLS[d](S).is_valid(x))
    except Exception as e:
        return ("crash", type(e).__name__)


def disagrees(d, S, x):
    if not _e1.accepted(d, S):
        return False
    try:
        exp = spec.valid(d, S, x)
    except spec.Unsupported:
        return False
    return verdict(d, S, x) != ("ok", exp)


def run_unit(unit, ctx):
    d = unit[0]
    U = _e1.get_universe(ctx.tier, unit[1])
    if unit[1] != "pairs":
        U = list(U) + EXTRA_NUM
    ev = nt = rejected = unsupported = nschemas = 0
    viol, samples = [], []
    outcomes = {}
    for S in _e1.iter_unit(unit, ctx.tier):
        if unit[1] != "singles" and not _e1.accepted(d, S):
            rejected += 1
            continue
        nschemas += 1
        v = _e1.CLS[d](S)
        for x in U:
            try:
                exp = not spec.errs(d, S, x)
            except spec.Unsupported:
                unsupported += 1
                continue
            ev += 1
            try:
                got = ("ok", v.is_valid(x))
            except Exception as e:
                got = ("crash", type(e).__name__)
            if _e1.nontrivial(S, x):
                nt += 1
            key = "valid" if exp else "invalid"
            outcomes[key] = outcomes.get(key, 0) + 1
            if got != ("ok", exp):
                small = _e1.shrink_keys(S, lambda c: disagrees(d, c, x))
                sig = "C01|%s|%s|on-%s" % (
                    "verdict" if got[0] == "ok" else "crash-" + got[1], _e1.kwsig(small), spec.jtype(x))
                viol.append({"signature": sig, "size": len(str(small)) + len(str(x)),
                             "case": {"draft": d, "schema": small, "instance": x},
                             "detail": {"expected_valid": exp, "observed": got, "unshrunk_schema": S}})
        if len(samples) < 2 and nschemas % 97 == 1:
            samples.append({"draft": d, "schema": S, "instance": U[(nschemas * 7) % len(U)]})
    return {"evaluations": ev, "nontrivial": nt, "violations": viol, "samples": samples,
            "outcomes": outcomes,
            "counters": {"schemas_accepted": nschemas, "schemas_rejected_by_check_schema": rejected,
                         "cases_outside_oracle_domain": unsupported}}


def replay(case, ctx):
    d, S, x = case["draft"], case["schema"], case["instance"]
    exp = spec.valid(d, S, x)
    got = verdict(d, S, x)
    return {"reproduced": got != ("ok", exp), "expected_valid": exp, "observed": got}
