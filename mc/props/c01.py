"""C01 — verdicts agree with the specification (DESIGN §5 C01).

Enumerates G(draft) x U for the four draft classes and compares
Validator.is_valid with the reference evaluator mc/ref/spec.py.
"""
from mc.props import _e1
from mc.ref import spec

ID = "C01"
LEVEL = "exploration"


def plan(ctx):
    units, sizes = _e1.make_units(ctx)
    units += [(d, "scale", 0, 1) for d in _e1.DRAFTS]
    U = _e1.get_universe(ctx.tier)
    Up = _e1.get_universe(ctx.tier, "pairs")
    return {
        "units": units,
        "rule": ("every schema of the grammar G(draft) = singles, ALL ordered pairs of singles with "
                 "different keywords, sibling-group products and nested applicators (depth 2, arity 3), "
                 "filtered by the real check_schema, x every instance of the universe U (plus, except for the pairs, "
                 "19 instances with integers beyond the double range and floats at the edges of exactness), x 4 drafts; "
                 "SCALE: ~600 (schema, instance) pairs per draft whose point is size (array / object / string / enum / "
                 "required lists of 9 .. 1000 elements, strings up to 70000 characters, thresholds n-1 / n / n+1, a "
                 "near-duplicate pair inside long uniqueItems arrays, nesting depth 20); "
                 "each (draft, schema, instance) is generated once (lists are de-duplicated by JSON text), "
                 "so evaluations are distinct; non-trivial = at least one keyword of the schema applies to "
                 "the instance's JSON type and the reference evaluator is exact on the case"),
        "bounds": dict(sizes, universe=len(U), universe_for_pairs=len(Up), tier=ctx.tier),
        "assumptions": [
            "reference evaluator mc/ref/spec.py is correct (bound to the official test suite by selftest)",
            "regular expressions restricted to the predicate table; float multipleOf only on dyadic operands",
        ],
    }


# numbers beyond the double range and at the edges of exactness, alone and inside containers (they meet the
# singles, the sibling groups and the nested schemas; the ordered pairs keep the pair universe)
EXTRA_NUM = [10 ** 400, -10 ** 400, 2 ** 1024, 2 ** 53 + 1, float(2 ** 53), 1e308, -1e308, 5e-324, -0.0,
             [10 ** 400], {"a": 10 ** 400}, [2 ** 1024, 2 ** 1024], {"a": -10 ** 400, "b": 1e308}]


EXTRA_NUM += [1000000000.5, 4503599627370495.5, 1.0000000001, 0.30000000000000004, 12345678.905, 123456789.125]


def scale_cases(d):
    """(schema, instance) pairs in which SIZE is the point: thresholds at 16/17, 64/65, 256/257, 4096/4097 ..."""
    out = []
    ns = [9, 16, 17, 32, 33, 64, 65, 128, 256, 257, 1000]
    for n in ns:
        arr = list(range(n))
        for m in (n - 1, n, n + 1):
            out += [({"maxItems": m}, arr), ({"minItems": m}, arr)]
        obj = {"k%d" % i: i for i in range(n)}
        for m in (n - 1, n, n + 1):
            out += [({"maxProperties" if d >= 4 else "maxItems": m}, obj if d >= 4 else arr),
                    ({"minProperties" if d >= 4 else "minItems": m}, obj if d >= 4 else arr)]
        out.append(({"items": {"type": "integer"}}, arr[:-1] + ["x"]))
        out.append(({"items": {"type": "integer"}}, arr))
        out.append(({"enum": arr}, n - 1))
        out.append(({"enum": arr}, n))
        out.append(({"enum": [[i] for i in range(n)]}, [n - 1.0]))
        out.append(({"additionalProperties": False, "properties": {"k0": {}}}, obj))
        out.append(({"additionalProperties": {"type": "integer"}}, dict(obj, last="x")))
        out.append(({"patternProperties": {"^k": {"type": "integer"}}, "additionalProperties": False}, dict(obj, z=1)))
        if d >= 4:
            out.append(({"required": ["k%d" % i for i in range(n)]}, {"k%d" % i: i for i in range(n - 1)}))
            out.append(({"required": ["k%d" % i for i in range(n)]}, obj))
        if d >= 6:
            out.append(({"contains": {"type": "string"}}, arr))
            out.append(({"contains": {"type": "string"}}, arr + ["x"]))
        # uniqueItems: n elements, all different but one pair that is equal only as JSON data
        fill = [[{"price": 50 + i}, [10 + i], "s%d" % i, i + 1000, {"q": [i]}][i % 5] for i in range(n - 2)]
        mid = len(fill) // 2
        for a, b in (([1], [1.0]), ({"k": 5}, {"k": 5.0}), (5, 5.0), ({"a": 1, "b": 2}, {"b": 2, "a": 1})):
            out.append(({"uniqueItems": True}, [a] + fill + [b]))
            out.append(({"uniqueItems": True}, fill[:mid] + [a] + fill[mid:mid + 2] + [b] + fill[mid + 2:]))
        out.append(({"uniqueItems": True}, [True] + fill + [1]))
    for n in (16, 255, 256, 4096, 4097, 70000):
        for m in (n - 1, n, n + 1):
            out += [({"maxLength": m}, "a" * n), ({"minLength": m}, "a" * n), ({"maxLength": m}, "😀" * n)]
        out.append(({"pattern": "^a"}, "a" * n + "b"))
        out.append(({"pattern": "b$"}, "a" * n))
        out.append(({"pattern": "^a", "maxLength": 5}, "b" + "a" * n))
        out.append(({"maxLength": 5, "pattern": "b$"}, "a" * n))
    deep_s, deep_x = {"type": "integer"}, 1.5
    for _ in range(20):
        deep_s, deep_x = {"items": deep_s}, [deep_x]
    out.append((deep_s, deep_x))
    return out


def run_scale(unit, ctx):
    d = unit[0]
    ev = 0
    viol, outcomes = [], {}
    for S, x in scale_cases(d):
        if not _e1.accepted(d, S):
            continue
        try:
            exp = not spec.errs(d, S, x)
        except spec.Unsupported:
            continue
        ev += 1
        got = verdict(d, S, x)
        key = "scale:" + ("valid" if exp else "invalid")
        outcomes[key] = outcomes.get(key, 0) + 1
        if got != ("ok", exp):
            size = len(x) if isinstance(x, (list, dict, str)) else 0
            viol.append({"signature": "C01|scale|%s|%s" % ("verdict" if got[0] == "ok" else "crash-" + got[1], _e1.kwsig(S)),
                         "size": size, "case": {"draft": d, "scale": True, "schema_keys": sorted(S), "size": size,
                                                "index": ev},
                         "detail": {"expected_valid": exp, "observed": got, "instance_size": size,
                                    "schema": S if len(str(S)) < 300 else str(S)[:300]}})
    return {"evaluations": ev, "nontrivial": ev, "violations": viol, "samples": [], "outcomes": outcomes,
            "counters": {"scale_cases": ev}}


def verdict(d, S, x):
    try:
        return ("ok", _e1.CLS[d](S).is_valid(x))
    except Exception as e:
        return ("crash", type(e).__name__)


def disagrees(d, S, x):
    if not _e1.accepted(d, S):
        return False
    try:
        exp = spec.valid(d, S, x)
    except spec.Unsupported:
        return False
    return verdict(d, S, x) != ("ok", exp)


def run_unit(unit, ctx):
    if unit[1] == "scale":
        return run_scale(unit, ctx)
    d = unit[0]
    U = _e1.get_universe(ctx.tier, unit[1])
    if unit[1] != "pairs":
        U = list(U) + EXTRA_NUM
    ev = nt = rejected = unsupported = nschemas = 0
    viol, samples = [], []
    outcomes = {}
    for S in _e1.iter_unit(unit, ctx.tier):
        if unit[1] != "singles" and not _e1.accepted(d, S):
            rejected += 1
            continue
        nschemas += 1
        v = _e1.CLS[d](S)
        for x in U:
            try:
                exp = not spec.errs(d, S, x)
            except spec.Unsupported:
                unsupported += 1
                continue
            ev += 1
            try:
                got = ("ok", v.is_valid(x))
            except Exception as e:
                got = ("crash", type(e).__name__)
            if _e1.nontrivial(S, x):
                nt += 1
            key = "valid" if exp else "invalid"
            outcomes[key] = outcomes.get(key, 0) + 1
            if got != ("ok", exp):
                small = _e1.shrink_keys(S, lambda c: disagrees(d, c, x))
                sig = "C01|%s|%s|on-%s" % (
                    "verdict" if got[0] == "ok" else "crash-" + got[1], _e1.kwsig(small), spec.jtype(x))
                viol.append({"signature": sig, "size": len(str(small)) + len(str(x)),
                             "case": {"draft": d, "schema": small, "instance": x},
                             "detail": {"expected_valid": exp, "observed": got, "unshrunk_schema": S}})
        if len(samples) < 2 and nschemas % 97 == 1:
            samples.append({"draft": d, "schema": S, "instance": U[(nschemas * 7) % len(U)]})
    return {"evaluations": ev, "nontrivial": nt, "violations": viol, "samples": samples,
            "outcomes": outcomes,
            "counters": {"schemas_accepted": nschemas, "schemas_rejected_by_check_schema": rejected,
                         "cases_outside_oracle_domain": unsupported}}


def replay(case, ctx):
    if case.get("scale"):
        d = case["draft"]
        n = 0
        for S, x in scale_cases(d):
            if not _e1.accepted(d, S):
                continue
            try:
                exp = not spec.errs(d, S, x)
            except spec.Unsupported:
                continue
            n += 1
            if n == case["index"]:
                got = verdict(d, S, x)
                return {"reproduced": got != ("ok", exp), "expected_valid": exp, "observed": got}
        return {"reproduced": False}
    d, S, x = case["draft"], case["schema"], case["instance"]
    exp = spec.valid(d, S, x)
    got = verdict(d, S, x)
    return {"reproduced": got != ("ok", exp), "expected_valid": exp, "observed": got}
