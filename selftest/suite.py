"""Binds the reference evaluator to external ground truth: it must agree with
the `valid` flag of every applicable case of the official JSON-Schema-Test-Suite
shipped in /repo/json (including the cases the repo's own runner skips)."""
import glob
import json
import os
import sys

from mc.ref import spec

REPO = os.environ.get("VERIF_REPO", "/repo")


def float_multiple_inexact(schema):
    def walk(s):
        if isinstance(s, dict):
            for k, v in s.items():
                if k in ("multipleOf", "divisibleBy") and isinstance(v, float) and v not in (0.5, 1.5, 2.0, 1.0):
                    return True
                if walk(v):
                    return True
        elif isinstance(s, list):
            return any(walk(e) for e in s)
        return False
    return walk(schema)


def main():
    tot = agree = unsup = 0
    bad = []
    for d in (3, 4, 6, 7):
        files = sorted(glob.glob("%s/json/tests/draft%d/*.json" % (REPO, d)))
        files += ["%s/json/tests/draft%d/optional/%s.json" % (REPO, d, n)
                  for n in ("bignum", "zeroTerminatedFloats")]
        for f in files:
            if not os.path.exists(f):
                continue
            base = os.path.basename(f)
            if base in ("refRemote.json", "format.json"):
                continue
            for case in json.load(open(f)):
                if float_multiple_inexact(case["schema"]):
                    unsup += len(case["tests"])
                    continue
                for t in case["tests"]:
                    try:
                        got = spec.valid(d, case["schema"], t["data"])
                    except spec.Unsupported:
                        unsup += 1
                        continue
                    except Exception as e:
                        bad.append((d, base, case["description"], t["description"], "EXC " + repr(e)))
                        continue
                    tot += 1
                    if got == t["valid"]:
                        agree += 1
                    else:
                        bad.append((d, base, case["description"], t["description"], got))
    print("selftest: reference evaluator vs official suite: %d cases, %d agree, %d outside oracle domain" % (
        tot, agree, unsup))
    for b in bad:
        print("  DISAGREE", b)
    if bad or tot < 1500:
        sys.exit(1)


if __name__ == "__main__":
    main()


def more():
    """Explorer determinism, codec round trips, model self-tests."""
    import os
    import sys
    import warnings
    warnings.simplefilter("ignore")
    sys.path.insert(0, REPO)
    from mc.ref import pointer
    # RFC 6901 / 3986 codec round trip over hostile keys
    keys = ["", "a", "/", "~", "~0", "~1", "~01", "~10", "%", "%25", "%2F", "#", "?", " ", '"', "\\", "é", "0", "01",
            "-", "a/b", "/~", "\U0001F600"]
    n = 0
    for a in keys:
        for b in keys:
            for full in (False, True):
                frag = pointer.fragment([a, b], full)
                assert pointer.tokens(frag) == [a, b], (a, b, frag)
                n += 1
    doc = {"": {"": 1}, "a": [10, {"~1": 2}]}
    assert pointer.resolve(doc, "") is doc and pointer.resolve(doc, "//") == 1 and pointer.resolve(doc, "/a/1/~01") == 2
    for bad in ("/a/-1", "/a/01", "/a/2", "/a/+1", "/a/1/x", "/b", "/a/0/0"):
        try:
            pointer.resolve(doc, bad)
            raise AssertionError(bad)
        except pointer.PointerError:
            pass
    print("selftest: pointer codec: %d round trips ok" % n)
    try:
        from mc.ref import formats
        if hasattr(formats, "selftest"):
            formats.selftest()
            print("selftest: format recognisers ok")
    except ImportError:
        pass
    # thread scheduler: the same schedule twice gives identical observations
    import jsonschema
    from mc.explore import threads
    from mc.props import c18
    pkg = os.path.dirname(os.path.abspath(jsonschema.__file__))
    outs = []
    for _ in range(2):
        s = threads.Sched(c18.bodies_for(7, (0, 1)), [0] * 7 + [1] + [0] * 20 + [1], pkg, "call")
        results, points = s.run()
        outs.append((repr(results), points))
    assert outs[0] == outs[1], "thread schedule replay is not deterministic"
    assert sum(p[3] for p in outs[0][1]) == 2
    print("selftest: thread scheduler replay identical (%d scheduling points, 2 preemptions)" % len(outs[0][1]))
    # history explorer on a toy model: counts are what combinatorics says
    from mc.explore import history

    class Toy(object):
        all_ops = [("a",), ("b",), ("c",)]

        def new_world(self):
            return []

        def ops(self, w):
            return list(self.all_ops)

        def deviation(self, op):
            return 1 if op == ("c",) else 0

        def apply(self, w, op):
            w.append(op[0])
            return (len(w),)

        def outcome_class(self, op, obs):
            return op[0]

        def canon(self, w):
            return (len(w) % 2, w.count("c"))

        def check(self, w, hist, op, obs):
            return None
    r = history.explore(Toy(), Toy.all_ops, 2, 4, 1)
    # depth 1: 3, depth 2: 9 minus ("c","c") = 8
    assert r["unmerged_histories"] == 11, r["unmerged_histories"]
    assert r["max_depth"] == 4 and not r["violations"]
    print("selftest: history explorer toy model ok (%d transitions, %d merged states)" % (r["transitions"], r["merged_states"]))


if __name__ == "__main__":
    more()
