"""Binds the reference evaluator to external ground truth: it must agree with
the `valid` flag of every applicable case of the official JSON-Schema-Test-Suite
shipped in /repo/json (including the cases the repo's own runner skips)."""
import glob
import json
import os
import sys

from mc.ref import spec

REPO = os.environ.get("VERIF_REPO", "/repo")


def float_multiple_inexact(schema):
    def walk(s):
        if isinstance(s, dict):
            for k, v in s.items():
                if k in ("multipleOf", "divisibleBy") and isinstance(v, float) and v not in (0.5, 1.5, 2.0, 1.0):
                    return True
                if walk(v):
                    return True
        elif isinstance(s, list):
            return any(walk(e) for e in s)
        return False
    return walk(schema)


def main():
    tot = agree = unsup = 0
    bad = []
    for d in (3, 4, 6, 7):
        files = sorted(glob.glob("%s/json/tests/draft%d/*.json" % (REPO, d)))
        files += ["%s/json/tests/draft%d/optional/%s.json" % (REPO, d, n)
                  for n in ("bignum", "zeroTerminatedFloats")]
        for f in files:
            if not os.path.exists(f):
                continue
            base = os.path.basename(f)
            if base in ("refRemote.json", "format.json"):
                continue
            for case in json.load(open(f)):
                if float_multiple_inexact(case["schema"]):
                    unsup += len(case["tests"])
                    continue
                for t in case["tests"]:
                    try:
                        got = spec.valid(d, case["schema"], t["data"])
                    except spec.Unsupported:
                        unsup += 1
                        continue
                    except Exception as e:
                        bad.append((d, base, case["description"], t["description"], "EXC " + repr(e)))
                        continue
                    tot += 1
                    if got == t["valid"]:
                        agree += 1
                    else:
                        bad.append((d, base, case["description"], t["description"], got))
    print("selftest: reference evaluator vs official suite: %d cases, %d agree, %d outside oracle domain" % (
        tot, agree, unsup))
    for b in bad:
        print("  DISAGREE", b)
    if bad or tot < 1500:
        sys.exit(1)


if __name__ == "__main__":
    main()
