#!/bin/bash
# Oracle self-validation; run by MANIFEST.setup_cmd.
cd "$(dirname "$0")/.."
export PYTHONHASHSEED=0 PYTHONDONTWRITEBYTECODE=1
exec /venv/bin/python -m selftest.suite
